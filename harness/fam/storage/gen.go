package storage

import (
	"fmt"
	"hash/fnv"
	"math"
	"math/rand"
	"strconv"
	"strings"
	"sync"
	"time"

	chart "helm.sh/helm/v4/pkg/chart/v2"
	chartutil "helm.sh/helm/v4/pkg/chart/v2/util"
	rspb "helm.sh/helm/v4/pkg/release/v1"
	helmtime "helm.sh/helm/v4/pkg/time"
)

// Conc turns the abstract alphabet of Storage.tla (names n1, n2; revisions; three statuses;
// content variants) into concrete helm releases. Everything is a function of (seed, scenario
// id), so a scenario replays identically; every call builds a FRESH object (the memory
// driver keeps the caller's pointer).
type Conc struct {
	seed  int64
	sid   string
	big   bool
	large int // upper bound of "large" manifests in bytes
	mu    sync.Mutex
	cache map[contentKey]*contentEntry

	NS       string
	Names    map[string]string
	Revs     map[int]int // abstract revision (1, 2, 3 of Storage.tla) -> concrete revision number
	invRevs  map[int]int
	Stat     map[string]string
	invNames map[string]string
	invStat  map[string]string
}

func rngFor(seed int64, parts ...string) *rand.Rand {
	h := fnv.New64a()
	fmt.Fprintf(h, "%d", seed)
	for _, p := range parts {
		h.Write([]byte{0})
		h.Write([]byte(p))
	}
	return rand.New(rand.NewSource(int64(h.Sum64())))
}

var allStatuses = []string{"unknown", "deployed", "uninstalled", "superseded", "failed", "uninstalling",
	"pending-install", "pending-upgrade", "pending-rollback"}

const nameAlnum = "abcdefghijklmnopqrstuvwxyz0123456789"

func randSeg(r *rand.Rand, n int) string {
	// [a-z0-9]([-a-z0-9]*[a-z0-9])?
	b := make([]byte, n)
	for i := range b {
		if i > 0 && i < n-1 && r.Intn(6) == 0 {
			b[i] = '-'
		} else {
			b[i] = nameAlnum[r.Intn(len(nameAlnum))]
		}
	}
	return string(b)
}

// name53 builds a release name of exactly the maximal length (53), in dot-separated segments;
// withDotV forces a segment that starts with 'v' after a dot.
func name53(r *rand.Rand, withDotV bool) string {
	for {
		var segs []string
		total := 0
		for total < 53 {
			n := 1 + r.Intn(12)
			if total+n > 53 {
				n = 53 - total
			}
			if 53-(total+n) == 1 { // would leave room for a lone dot
				n--
				if n == 0 {
					n = 2
				}
			}
			s := randSeg(r, n)
			if withDotV && len(segs) == 1 {
				s = "v" + s[1:]
			}
			if !withDotV && len(segs) > 0 && s[0] == 'v' {
				s = "w" + s[1:]
			}
			segs = append(segs, s)
			total += n + 1
		}
		name := strings.Join(segs, ".")
		if len(name) == 53 && chartutil.ValidateReleaseName(name) == nil && strings.Contains(name, ".v") == withDotV {
			return name
		}
	}
}

var plainNames = []string{"web", "app-1", "my-release", "x", "0", "nginx-ingress", "a-b-c-d", "v1", "vault", "release-v2"}
var dottedNames = []string{"my.app", "a.b.c", "svc.prod.eu-west-1", "chart.1.2.3", "db.primary", "x.y"}
var dotVNames = []string{"a.v1b", "x.v2", "svc.very", "rel.v1", "my.values", "a.v", "app.v1.2", "sh.helm.release.v1.x", "api.v2.internal"}

func genName(r *rand.Rand) string {
	switch p := r.Intn(100); {
	case p < 40:
		return plainNames[r.Intn(len(plainNames))]
	case p < 62:
		return dottedNames[r.Intn(len(dottedNames))]
	case p < 76:
		return dotVNames[r.Intn(len(dotVNames))]
	case p < 92:
		return name53(r, false)
	default:
		return name53(r, true)
	}
}

// NewConc draws the concretisation of one scenario.
func NewConc(seed int64, sc Scenario, tier string) (*Conc, error) {
	cid := sc.ConcID
	if cid == "" {
		cid = sc.ID
	}
	c := &Conc{seed: seed, sid: cid, big: sc.Big, large: 48 << 10, cache: map[contentKey]*contentEntry{}}
	if tier == "thorough" {
		c.large = 256 << 10
	}
	r := rngFor(seed, cid, "conc")
	c.NS = []string{"default", "ns-" + randSeg(r, 5), "kube-system", "team-a", randSeg(r, 63)}[r.Intn(5)]
	n1 := genName(r)
	n2 := genName(r)
	if r.Intn(8) == 0 && len(n1)+3 <= 53 { // a pair whose keys look alike: "a" rev N and "a.v1"
		n2 = n1 + ".v1"
	}
	for n2 == n1 {
		n2 = genName(r)
	}
	c.Names = map[string]string{"n1": n1, "n2": n2}
	perm := r.Perm(len(allStatuses))
	c.Stat = map[string]string{"deployed": allStatuses[perm[0]], "superseded": allStatuses[perm[1]], "failed": allStatuses[perm[2]]}
	if r.Intn(3) == 0 { // often keep the natural reading
		c.Stat = map[string]string{"deployed": "deployed", "superseded": "superseded", "failed": "failed"}
	}
	// the abstract revisions run on concrete revision numbers that, in most scenarios, straddle a
	// decimal-length boundary (v9 / v10 / v11, v8 / v10 / v100, ...): string order of the keys then
	// differs from numeric order of the revisions; sometimes the abstract order is permuted as well
	triples := [][3]int{{1, 2, 3}, {9, 10, 11}, {8, 10, 100}, {99, 100, 101}, {1, 10, 2}, {7, 12, 9}, {2, 19, 100}, {9, 10, 100}}
	tr := triples[0]
	if p := r.Intn(100); p >= 25 {
		tr = triples[1+r.Intn(len(triples)-1)]
	}
	if r.Intn(4) == 0 {
		pm := r.Perm(3)
		tr = [3]int{tr[pm[0]], tr[pm[1]], tr[pm[2]]}
	}
	c.Revs = map[int]int{1: tr[0], 2: tr[1], 3: tr[2]}
	c.invRevs = map[int]int{}
	for a, n := range c.Revs {
		c.invRevs[n] = a
	}
	c.invNames, c.invStat = map[string]string{}, map[string]string{}
	for a, n := range c.Names {
		if err := chartutil.ValidateReleaseName(n); err != nil {
			return nil, fmt.Errorf("generated release name %q is not valid: %v", n, err)
		}
		c.invNames[n] = a
	}
	for a, s := range c.Stat {
		c.invStat[s] = a
	}
	return c, nil
}

func (c *Conc) Info() *ConcInfo {
	revs := map[string]int{}
	for a, n := range c.Revs {
		revs[strconv.Itoa(a)] = n
	}
	return &ConcInfo{Seed: c.seed, Namespace: c.NS, Names: c.Names, Statuses: c.Stat, Revs: revs, Big: c.big}
}

// ConcRev is the concrete revision number of an abstract revision (itself when it has none).
func (c *Conc) ConcRev(a int) int {
	if n, ok := c.Revs[a]; ok {
		return n
	}
	return a
}

// AbsRev maps a concrete revision number back; an unknown one becomes a negative number, which is no
// revision of the specification.
func (c *Conc) AbsRev(n int) int {
	if a, ok := c.invRevs[n]; ok {
		return a
	}
	if n > 0 {
		return -n
	}
	return n - 1000000
}

// AbsVersion maps the value of a "version" label back ("?..." when it is no stored revision).
func (c *Conc) AbsVersion(s string) string {
	if n, err := strconv.Atoi(s); err == nil && strconv.Itoa(n) == s {
		if a, ok := c.invRevs[n]; ok {
			return strconv.Itoa(a)
		}
	}
	return "?" + s
}

// AbsName / AbsStatus map concrete values back ("?…" when unknown).
func (c *Conc) AbsName(n string) string {
	if a, ok := c.invNames[n]; ok {
		return a
	}
	return "?" + n
}

func (c *Conc) AbsStatus(s string) string {
	if a, ok := c.invStat[s]; ok {
		return a
	}
	return "?" + s
}

// ---- content ------------------------------------------------------------------------

var unicodeBits = []string{"héllo", "日本語のテキスト", "emoji 🚀✨", "Ελληνικά", "עברית", " line-sep", "tab\tand\nnewline", "quote\"back\\slash",
	"<html>&amp;</html>", "\u0000nul", "zero​width", "𝔘𝔫𝔦𝔠𝔬𝔡𝔢", "ÅÄÖ", "نص عربي", "한국어"}

func randText(r *rand.Rand, n int) string {
	var sb strings.Builder
	for sb.Len() < n {
		switch r.Intn(4) {
		case 0:
			sb.WriteString(unicodeBits[r.Intn(len(unicodeBits))])
		case 1:
			sb.WriteString(fmt.Sprintf("  key%d: value-%d\n", r.Intn(1000), r.Int63()))
		case 2:
			sb.WriteRune(rune(0x4e00 + r.Intn(0x5000)))
		default:
			sb.WriteString(randSeg(r, 1+r.Intn(20)))
			sb.WriteByte(' ')
		}
	}
	return sb.String()
}

var valueKeys = []string{"replicaCount", "image", "tag", "résumé", "a.b", "", "キー", "nested", "list", "enabled", "resources", "x-y_z", "0", "null"}

func (c *Conc) randValue(r *rand.Rand, depth int, big *bool) interface{} {
	k := r.Intn(12)
	if depth <= 0 && k >= 9 {
		k = r.Intn(9)
	}
	switch k {
	case 0:
		return unicodeBits[r.Intn(len(unicodeBits))]
	case 1:
		return randSeg(r, 1+r.Intn(30))
	case 2:
		return int64(r.Intn(2000) - 1000)
	case 3:
		// integers: within the float64-exact range in general; beyond 2^53 only when asked for (L20)
		if c.big && r.Intn(2) == 0 {
			*big = true
			return []int64{1<<53 + 1, math.MaxInt64, -(1<<53 + 3), 1234567890123456789}[r.Intn(4)]
		}
		return []int64{1 << 53, -(1 << 53), 1<<31 + 7, 4294967296, 0}[r.Intn(5)]
	case 4:
		return []float64{0.5, -1.25, 3.141592653589793, 1e21, 1e-7, 2.5e300, 100}[r.Intn(7)]
	case 5:
		return r.Intn(2) == 0
	case 6:
		return nil
	case 7:
		return ""
	case 8:
		return int(r.Intn(100))
	case 9, 10:
		m := map[string]interface{}{}
		for i, n := 0, r.Intn(4); i < n; i++ {
			m[valueKeys[r.Intn(len(valueKeys))]] = c.randValue(r, depth-1, big)
		}
		return m
	default:
		l := []interface{}{}
		for i, n := 0, r.Intn(4); i < n; i++ {
			l = append(l, c.randValue(r, depth-1, big))
		}
		return l
	}
}

func (c *Conc) randValues(r *rand.Rand, big *bool) map[string]interface{} {
	m := map[string]interface{}{}
	for i, n := 0, r.Intn(5); i < n; i++ {
		m[valueKeys[r.Intn(len(valueKeys))]] = c.randValue(r, 3, big)
	}
	return m
}

var zones = []*time.Location{time.UTC, time.FixedZone("", 5*3600+1800), time.FixedZone("PST", -8*3600), time.FixedZone("", 14*3600), time.FixedZone("X", -12*3600)}

func randTime(r *rand.Rand, zeroOK bool) helmtime.Time {
	if zeroOK && r.Intn(3) == 0 {
		return helmtime.Time{}
	}
	sec := int64(r.Intn(4102444800)) // 1970 .. 2100
	nsec := int64(0)
	switch r.Intn(3) {
	case 0:
		nsec = int64(r.Intn(1000000000))
	case 1:
		nsec = int64(r.Intn(1000)) * 1000000
	}
	return helmtime.Time{Time: time.Unix(sec, nsec).In(zones[r.Intn(len(zones))])}
}

var labelKeys = []string{"team", "env", "app.kubernetes.io/part-of", "helm.sh/custom", "x", "tier-1", "Name", "names", "Owner", "status2"}
var labelVals = []string{"", "a", "blue-green_1.0", "A-Z", "0", "v1.2.3", strings.Repeat("z", 63), "x_y.z-9"}

var hookEvents = []rspb.HookEvent{rspb.HookPreInstall, rspb.HookPostInstall, rspb.HookPreDelete, rspb.HookPostDelete,
	rspb.HookPreUpgrade, rspb.HookPostUpgrade, rspb.HookPreRollback, rspb.HookPostRollback, rspb.HookTest}
var hookPolicies = []rspb.HookDeletePolicy{rspb.HookSucceeded, rspb.HookFailed, rspb.HookBeforeHookCreation}
var hookPhases = []rspb.HookPhase{rspb.HookPhaseUnknown, rspb.HookPhaseRunning, rspb.HookPhaseSucceeded, rspb.HookPhaseFailed, ""}

// Release builds the concrete release for the abstract tuple; the content (everything but
// the status) is a function of (name, rev, v). The second result reports whether the content
// holds an integer beyond 2^53.
//
// The heavy, read-only parts (chart, values, manifest, hooks) are generated once per (name, rev, v)
// and shared; the Release struct, its Info and its label map are fresh on every call (the memory driver
// keeps the caller's pointer, and no driver may see a later call's status through it).
func (c *Conc) Release(a AbsRel) (*rspb.Release, bool) {
	ck := contentKey{a.Name, a.Rev, a.V}
	c.mu.Lock()
	ent, ok := c.cache[ck]
	if !ok {
		rel, big := c.generate(AbsRel{Name: a.Name, Rev: a.Rev, St: "deployed", V: a.V})
		ent = &contentEntry{rel: rel, big: big}
		c.cache[ck] = ent
	}
	c.mu.Unlock()
	rel := *ent.rel
	info := *ent.rel.Info
	info.Status = rspb.Status(c.Stat[a.St])
	rel.Info = &info
	if ent.rel.Labels != nil {
		rel.Labels = make(map[string]string, len(ent.rel.Labels))
		for k, v := range ent.rel.Labels {
			rel.Labels[k] = v
		}
	}
	return &rel, ent.big
}

type contentKey struct {
	name string
	rev  int
	v    int
}

type contentEntry struct {
	rel *rspb.Release
	big bool
}

func (c *Conc) generate(a AbsRel) (*rspb.Release, bool) {
	r := rngFor(c.seed, c.sid, "content", a.Name, fmt.Sprint(a.Rev), fmt.Sprint(a.V))
	big := false
	name := c.Names[a.Name]
	rel := &rspb.Release{Name: name, Namespace: c.NS, Version: c.ConcRev(a.Rev)}

	// chart
	md := &chart.Metadata{Name: "chart-" + randSeg(r, 4), Version: fmt.Sprintf("%d.%d.%d", r.Intn(9), r.Intn(20), a.V), APIVersion: "v2",
		AppVersion: "v" + randSeg(r, 3), Description: unicodeBits[r.Intn(len(unicodeBits))]}
	if r.Intn(2) == 0 {
		md.Keywords = []string{"kw", unicodeBits[r.Intn(len(unicodeBits))]}
		md.Annotations = map[string]string{"category": "test", "note": unicodeBits[r.Intn(len(unicodeBits))]}
	}
	ch := &chart.Chart{Metadata: md}
	for i, n := 0, r.Intn(3); i < n; i++ {
		ch.Templates = append(ch.Templates, &chart.File{Name: fmt.Sprintf("templates/t%d.yaml", i), Data: []byte("kind: ConfigMap\n# " + randText(r, 40+r.Intn(200)))})
	}
	if r.Intn(2) == 0 {
		nobig := false
		ch.Values = c.randValuesNoBig(r, &nobig)
	}
	if r.Intn(4) == 0 {
		ch.Schema = []byte(`{"type":"object","title":"` + randSeg(r, 5) + `"}`)
	}
	if r.Intn(3) == 0 {
		bin := make([]byte, 1+r.Intn(64))
		r.Read(bin)
		ch.Files = append(ch.Files, &chart.File{Name: "files/data.bin", Data: bin}, &chart.File{Name: "README.md", Data: []byte{}})
	}
	if r.Intn(6) != 0 {
		rel.Chart = ch
	}

	// values
	switch r.Intn(6) {
	case 0:
		rel.Config = nil
	case 1:
		rel.Config = map[string]interface{}{}
	default:
		rel.Config = c.randValues(r, &big)
	}
	if c.big && !big && r.Intn(2) == 0 {
		if rel.Config == nil {
			rel.Config = map[string]interface{}{}
		}
		rel.Config["bigint"] = int64(1<<53 + 1)
		big = true
	}

	// manifest: small / medium / large, unicode
	var size int
	switch p := r.Intn(40); {
	case p < 26:
		size = 50 + r.Intn(400)
	case p < 39:
		size = 2000 + r.Intn(6000)
	default:
		size = c.large/2 + r.Intn(c.large/2)
	}
	rel.Manifest = fmt.Sprintf("---\n# Source: %s/templates/cm.yaml\napiVersion: v1\nkind: ConfigMap\nmetadata:\n  name: %s-%d-%d\ndata:\n", md.Name, name, a.Rev, a.V) + randText(r, size)
	if r.Intn(120) == 0 {
		// a release whose JSON form exceeds 1 MiB but compresses well (repetitive text): legal for the
		// Kubernetes-backed drivers, whose size limit applies to the gzip'd record
		line := "  k" + randSeg(r, 6) + ": \"" + randText(r, 80) + "\"\n"
		rel.Manifest += strings.Repeat(line, (1200<<10+r.Intn(400<<10))/len(line))
	}
	if r.Intn(10) == 0 {
		rel.Manifest = ""
	}

	// hooks
	for i, n := 0, r.Intn(4); i < n; i++ {
		h := &rspb.Hook{Name: fmt.Sprintf("hook-%d-%s", i, randSeg(r, 3)), Kind: []string{"Job", "Pod", "ConfigMap"}[r.Intn(3)],
			Path: fmt.Sprintf("%s/templates/hook%d.yaml", md.Name, i), Manifest: "kind: Job\n# " + randText(r, 20+r.Intn(100)),
			Weight: r.Intn(21) - 10}
		for j, m := 0, 1+r.Intn(3); j < m; j++ {
			h.Events = append(h.Events, hookEvents[r.Intn(len(hookEvents))])
		}
		for j, m := 0, r.Intn(3); j < m; j++ {
			h.DeletePolicies = append(h.DeletePolicies, hookPolicies[r.Intn(len(hookPolicies))])
		}
		if r.Intn(3) == 0 {
			h.OutputLogPolicies = []rspb.HookOutputLogPolicy{rspb.HookOutputOnFailed}
		}
		h.LastRun = rspb.HookExecution{StartedAt: randTime(r, true), CompletedAt: randTime(r, true), Phase: hookPhases[r.Intn(len(hookPhases))]}
		rel.Hooks = append(rel.Hooks, h)
	}
	if r.Intn(8) == 0 {
		rel.Hooks = []*rspb.Hook{}
	}

	// info
	rel.Info = &rspb.Info{FirstDeployed: randTime(r, false), LastDeployed: randTime(r, false), Deleted: randTime(r, true),
		Description: "variant " + fmt.Sprint(a.V) + " " + unicodeBits[r.Intn(len(unicodeBits))], Status: rspb.Status(c.Stat[a.St])}
	if r.Intn(2) == 0 {
		rel.Info.Notes = randText(r, 30+r.Intn(300))
	}

	// user labels (never a system label key)
	switch r.Intn(5) {
	case 0:
		rel.Labels = nil
	case 1:
		rel.Labels = map[string]string{}
	default:
		rel.Labels = map[string]string{}
		for i, n := 0, 1+r.Intn(3); i < n; i++ {
			rel.Labels[labelKeys[r.Intn(len(labelKeys))]] = labelVals[r.Intn(len(labelVals))]
		}
	}
	// the two variants of one key must differ on something the property names
	rel.Manifest += fmt.Sprintf("\n# variant %d\n", a.V)
	return rel, big
}

func (c *Conc) randValuesNoBig(r *rand.Rand, big *bool) map[string]interface{} {
	c2 := &Conc{seed: c.seed, sid: c.sid, big: false, large: c.large}
	return c2.randValues(r, big)
}

// StorageKey is pkg/storage's key scheme (storage.go: makeKey is unexported).
func StorageKey(name string, rev int) string {
	return fmt.Sprintf("sh.helm.release.v1.%s.v%d", name, rev)
}
