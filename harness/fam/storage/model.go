// Package storage is the Go side of property C10 ("all storage backends behave as the
// same faithful key-value store"): it replays call sequences produced by TLC from
// spec/Storage.tla on the three real drivers (driver.Memory, driver.Secrets and
// driver.ConfigMaps, the latter two on a real kubernetes.Clientset whose transport is
// the in-process simulated API server), concretising the abstract releases with generated
// content, and records one trace event per call (reply + projected store) for
// spec/StorageTrace.tla, plus observations (read-back fidelity detail, disagreement
// between drivers, panics).
package storage

// Sel is a label selector (Query) or a filter on release fields (List); "" = unconstrained.
type Sel struct {
	Name    string `json:"name"`
	Owner   string `json:"owner"`
	Status  string `json:"status"`
	Version string `json:"version"`
}

// Call is one abstract driver call, in the record shape of Storage.tla (MkCall).
type Call struct {
	Op   string `json:"op"` // create | update | get | delete | list | query | modify
	Name string `json:"name"`
	Rev  int    `json:"rev"`
	St   string `json:"st"`
	V    int    `json:"v"`
	Q    Sel    `json:"q"`
}

// Scenario is a call sequence; Drivers defaults to all three.
type Scenario struct {
	ID string `json:"id"`
	// ConcID keys the concretisation (default: ID), so that a shortened copy of a scenario keeps its
	// names and contents.
	ConcID  string   `json:"conc_id,omitempty"`
	Calls   []Call   `json:"calls"`
	Drivers []string `json:"drivers,omitempty"`
	// Big asks for integers beyond 2^53 in the generated values (lead L20; thorough tier).
	Big bool `json:"big,omitempty"`
}

// AbsRel is the abstract release tuple of Storage.tla: [name, rev, st, v].
type AbsRel struct {
	Name string `json:"name"`
	Rev  int    `json:"rev"`
	St   string `json:"st"`
	V    int    `json:"v"`
}

// StoreRec is one projected record of the store: the release found under a key and, where
// the backend exposes them, its four system labels.
type StoreRec struct {
	AbsRel
	Lab *Sel `json:"lab,omitempty"`
	// Diff names the fields on which the stored body differs from every generated release (V = 0 only).
	Diff []string `json:"diff,omitempty"`
}

// Reply is the reply of one call as Storage.tla sees it.
type Reply struct {
	St  string   `json:"st"` // ok | exists | notfound | failed | error | panic
	Ret AbsRel   `json:"ret"`
	Set []AbsRel `json:"set"`
}

// Raw carries what the abstraction drops (diagnostics, known-finding matching).
type Raw struct {
	Class     string   `json:"class"`               // ok | exists | notfound | invalidkey | error | panic
	Err       string   `json:"err,omitempty"`       // error text
	CName     string   `json:"cname,omitempty"`     // concrete release name addressed
	Key       string   `json:"key,omitempty"`       // concrete storage key addressed
	Diff      []string `json:"diff,omitempty"`      // fields on which a returned release differs from what was stored
	StoreDiff []string `json:"storediff,omitempty"` // fields on which a stored body differs from every generated release
	BigInt    bool     `json:"bigint,omitempty"`    // the addressed / returned content holds an integer beyond 2^53
}

// Event is one line of the trace (NDJSON).
type Event struct {
	Ev       string              `json:"ev"` // reset | call
	Scenario string              `json:"scenario"`
	Drv      string              `json:"drv"`
	Step     int                 `json:"step"`
	Call     *Call               `json:"call,omitempty"`
	Reply    *Reply              `json:"reply,omitempty"`
	Store    map[string]StoreRec `json:"store"`
	Raw      *Raw                `json:"raw,omitempty"`
	Conc     *ConcInfo           `json:"conc,omitempty"`
}

// ConcInfo describes the concretisation of a scenario (on the reset line).
type ConcInfo struct {
	Seed      int64             `json:"seed"`
	Namespace string            `json:"namespace"`
	Names     map[string]string `json:"names"`
	Statuses  map[string]string `json:"statuses"`
	Revs      map[string]int    `json:"revs"` // abstract revision -> concrete revision number
	Big       bool              `json:"big"`
}

// Obs is one observation outside the trace (NDJSON).
type Obs struct {
	Scenario string     `json:"scenario"`
	Step     int        `json:"step"`
	Drv      string     `json:"drv,omitempty"`
	Kind     string     `json:"kind"` // fidelity | disagree | panic | invalid-input
	Detail   string     `json:"detail"`
	Fields   []string   `json:"fields,omitempty"`
	Op       string     `json:"op,omitempty"`
	CName    string     `json:"cname,omitempty"`
	Class    string     `json:"class,omitempty"`
	BigInt   bool       `json:"bigint,omitempty"`
	Dissent  []string   `json:"dissent,omitempty"` // drivers whose abstract result differs from the majority
	Groups   [][]string `json:"groups,omitempty"`  // the drivers partitioned by equal abstract result
}
