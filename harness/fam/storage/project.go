package storage

import (
	"bytes"
	"crypto/sha256"
	"encoding/hex"
	"encoding/json"
	"fmt"
	"math/big"
	"sort"

	rspb "helm.sh/helm/v4/pkg/release/v1"
	helmtime "helm.sh/helm/v4/pkg/time"
)

// The projection of a release onto what C10 names: name, namespace, revision, status,
// timestamps (as instants), chart, values (as JSON values), manifest, hooks, USER labels.
// System label keys are projected away (List / Query of the Kubernetes drivers return them
// as well); an empty map / list and an absent one are the same value.

// own copy of the system label keys (not driver.GetSystemLabels: the oracle must not move with the code)
var systemLabelKeys = map[string]bool{"name": true, "owner": true, "status": true, "version": true, "createdAt": true, "modifiedAt": true}

type hookProj struct {
	Name, Kind, Path, Manifest string
	Events                     []string
	Weight                     int
	DeletePolicies             []string
	OutputLogPolicies          []string
	Started, Completed, Phase  string
}

// Proj is the projected release, field by field (so that differences can be named).
type Proj struct {
	Name      string
	Namespace string
	Revision  int
	Status    string
	First     string
	Last      string
	Deleted   string
	Chart     interface{}
	Values    interface{}
	Manifest  string
	Hooks     []hookProj
	Labels    map[string]string
}

func instant(t helmtime.Time) string {
	if t.IsZero() {
		return "zero"
	}
	return fmt.Sprintf("%d.%09d", t.Unix(), t.Nanosecond())
}

// canon turns any JSON-marshallable value into a canonical JSON value: object keys sorted
// (encoding/json does that for maps), numbers as exact rationals, so that an int64 stored and
// a float64 read back are equal iff they denote the same number.
func canon(v interface{}) (interface{}, error) {
	b, err := json.Marshal(v)
	if err != nil {
		return nil, err
	}
	dec := json.NewDecoder(bytes.NewReader(b))
	dec.UseNumber()
	var out interface{}
	if err := dec.Decode(&out); err != nil {
		return nil, err
	}
	return canonWalk(out), nil
}

func canonWalk(v interface{}) interface{} {
	switch x := v.(type) {
	case json.Number:
		if r, ok := new(big.Rat).SetString(x.String()); ok {
			return "#" + r.RatString()
		}
		return "#?" + x.String()
	case string:
		return "s" + x
	case map[string]interface{}:
		for k, e := range x {
			x[k] = canonWalk(e)
		}
		return x
	case []interface{}:
		for i, e := range x {
			x[i] = canonWalk(e)
		}
		return x
	}
	return v
}

// Project computes the projection; a nil release projects to nil.
func Project(r *rspb.Release) (*Proj, error) {
	if r == nil {
		return nil, nil
	}
	p := &Proj{Name: r.Name, Namespace: r.Namespace, Revision: r.Version, Manifest: r.Manifest, Hooks: []hookProj{}, Labels: map[string]string{}}
	if r.Info != nil {
		p.Status = r.Info.Status.String()
		p.First, p.Last, p.Deleted = instant(r.Info.FirstDeployed), instant(r.Info.LastDeployed), instant(r.Info.Deleted)
	} else {
		p.Status = "<no info>"
	}
	var err error
	if r.Chart != nil {
		if p.Chart, err = canon(r.Chart); err != nil {
			return nil, fmt.Errorf("chart: %w", err)
		}
	}
	if len(r.Config) == 0 {
		p.Values = map[string]interface{}{}
	} else if p.Values, err = canon(r.Config); err != nil {
		return nil, fmt.Errorf("values: %w", err)
	}
	for _, h := range r.Hooks {
		if h == nil {
			p.Hooks = append(p.Hooks, hookProj{Name: "<nil hook>"})
			continue
		}
		hp := hookProj{Name: h.Name, Kind: h.Kind, Path: h.Path, Manifest: h.Manifest, Weight: h.Weight,
			Events: []string{}, DeletePolicies: []string{}, OutputLogPolicies: []string{},
			Started: instant(h.LastRun.StartedAt), Completed: instant(h.LastRun.CompletedAt), Phase: string(h.LastRun.Phase)}
		for _, e := range h.Events {
			hp.Events = append(hp.Events, string(e))
		}
		for _, e := range h.DeletePolicies {
			hp.DeletePolicies = append(hp.DeletePolicies, string(e))
		}
		for _, e := range h.OutputLogPolicies {
			hp.OutputLogPolicies = append(hp.OutputLogPolicies, string(e))
		}
		p.Hooks = append(p.Hooks, hp)
	}
	for k, v := range r.Labels {
		if !systemLabelKeys[k] {
			p.Labels[k] = v
		}
	}
	return p, nil
}

func fieldJSON(p *Proj) map[string]string {
	enc := func(v interface{}) string { b, _ := json.Marshal(v); return string(b) }
	return map[string]string{
		"name": enc(p.Name), "namespace": enc(p.Namespace), "revision": enc(p.Revision), "status": enc(p.Status),
		"first_deployed": enc(p.First), "last_deployed": enc(p.Last), "deleted": enc(p.Deleted),
		"chart": enc(p.Chart), "values": enc(p.Values), "manifest": enc(p.Manifest), "hooks": enc(p.Hooks), "labels": enc(p.Labels),
	}
}

// Digest of the projection.
func (p *Proj) Digest() string {
	if p == nil {
		return "nil"
	}
	b, _ := json.Marshal(p)
	s := sha256.Sum256(b)
	return hex.EncodeToString(s[:12])
}

// DiffFields names the projected fields on which two releases differ.
func DiffFields(a, b *Proj) []string {
	if a == nil || b == nil {
		return []string{"<nil release>"}
	}
	fa, fb := fieldJSON(a), fieldJSON(b)
	var out []string
	for k := range fa {
		if fa[k] != fb[k] {
			out = append(out, k)
		}
	}
	sort.Strings(out)
	return out
}
