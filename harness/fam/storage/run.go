package storage

import (
	"bytes"
	"compress/gzip"
	"encoding/base64"
	"encoding/json"
	"errors"
	"fmt"
	"io"
	"regexp"
	"sort"
	"strconv"
	"strings"

	apierrors "k8s.io/apimachinery/pkg/api/errors"

	rspb "helm.sh/helm/v4/pkg/release/v1"
	helmstorage "helm.sh/helm/v4/pkg/storage"
	"helm.sh/helm/v4/pkg/storage/driver"

	"verif/harness/simcluster"
)

var AllDrivers = []string{"memory", "secret", "configmap"}

// backend is one real driver under test plus the means to look at what it stores.
type backend struct {
	seen    map[string]StoreRec      // projection of a stored object by object name, dropped whenever the server logs a write to it
	reqSeen int                      // requests of the server's log already looked at
	seenPtr map[*rspb.Release]AbsRel // memory driver: List hands out the stored pointers themselves
	kind    string
	st      *helmstorage.Storage // real pkg/storage front (real makeKey) over the real driver
	sim     *simcluster.Sim      // nil for memory
	ns      string
}

func newBackend(kind, ns string) (*backend, error) {
	b := &backend{kind: kind, ns: ns}
	switch kind {
	case "memory":
		m := driver.NewMemory()
		m.SetNamespace(ns) // as action.Configuration.Init does
		b.st = helmstorage.Init(m)
	case "secret", "configmap":
		b.sim = simcluster.New()
		f := &simcluster.Factory{RT: b.sim.Transport(0), Namespace: ns} // forces application/json (client-go would speak protobuf)
		cs, err := f.KubernetesClientSet()
		if err != nil {
			return nil, err
		}
		if kind == "secret" {
			b.st = helmstorage.Init(driver.NewSecrets(cs.CoreV1().Secrets(ns)))
		} else {
			b.st = helmstorage.Init(driver.NewConfigMaps(cs.CoreV1().ConfigMaps(ns)))
		}
	default:
		return nil, fmt.Errorf("unknown driver %q", kind)
	}
	return b, nil
}

// result of one real call
type rawResult struct {
	err   error
	panic string
	rel   *rspb.Release
	rels  []*rspb.Release
}

func classify(res rawResult) string {
	switch {
	case res.panic != "":
		return "panic"
	case res.err == nil:
		return "ok"
	case errors.Is(res.err, driver.ErrReleaseExists):
		return "exists"
	case errors.Is(res.err, driver.ErrReleaseNotFound) || apierrors.IsNotFound(res.err):
		return "notfound"
	case errors.Is(res.err, driver.ErrInvalidKey):
		return "invalidkey"
	}
	return "error"
}

// exec runs one call on the real driver; a panic inside helm is caught and reported.
func (b *backend) exec(c *Conc, call Call) (res rawResult) {
	defer func() {
		if r := recover(); r != nil {
			res = rawResult{panic: fmt.Sprint(r)}
		}
	}()
	switch call.Op {
	case "create":
		rel, _ := c.Release(AbsRel{call.Name, call.Rev, call.St, call.V})
		res.err = b.st.Create(rel)
	case "update":
		rel, _ := c.Release(AbsRel{call.Name, call.Rev, call.St, call.V})
		res.err = b.st.Update(rel)
	case "modify":
		// helm's read-modify-write: take the object a Query (selector name + owner, as Storage.History) or a
		// List (filter on the name) RETURNS for this key - labels as the driver set them -, change its status
		// in place and write that very object back with Update (what upgrade does to the current release).
		cname, crev := c.Names[call.Name], c.ConcRev(call.Rev)
		var rels []*rspb.Release
		if call.Q.Owner == "helm" {
			rels, _ = b.st.Query(map[string]string{"name": cname, "owner": "helm"})
		} else {
			rels, _ = b.st.List(func(r *rspb.Release) bool { return r.Name == cname })
		}
		var target *rspb.Release
		for _, r := range rels {
			if r != nil && r.Name == cname && r.Version == crev {
				target = r
				break
			}
		}
		if target == nil { // the read does not show the key: an Update of it has to fail
			target, _ = c.Release(AbsRel{call.Name, call.Rev, call.St, 1})
		} else {
			if target.Info == nil {
				target.Info = &rspb.Info{}
			}
			target.Info.Status = rspb.Status(c.Stat[call.St])
			delete(b.seenPtr, target) // (memory driver: the stored object itself was just changed)
		}
		res.err = b.st.Update(target)
	case "get":
		res.rel, res.err = b.st.Get(c.Names[call.Name], c.ConcRev(call.Rev))
	case "delete":
		res.rel, res.err = b.st.Delete(c.Names[call.Name], c.ConcRev(call.Rev))
	case "list":
		wantName, wantStatus := "", ""
		if call.Q.Name != "" {
			wantName = c.Names[call.Q.Name]
		}
		if call.Q.Status != "" {
			wantStatus = c.Stat[call.Q.Status]
		}
		res.rels, res.err = b.st.List(func(r *rspb.Release) bool {
			if wantName != "" && r.Name != wantName {
				return false
			}
			if wantStatus != "" && (r.Info == nil || r.Info.Status.String() != wantStatus) {
				return false
			}
			return true
		})
	case "query":
		q := map[string]string{}
		if call.Q.Name != "" {
			q["name"] = c.Names[call.Q.Name]
		}
		if call.Q.Owner != "" {
			q["owner"] = call.Q.Owner
		}
		if call.Q.Status != "" {
			q["status"] = c.Stat[call.Q.Status]
		}
		if call.Q.Version != "" {
			q["version"] = call.Q.Version
			if n, err := strconv.Atoi(call.Q.Version); err == nil {
				q["version"] = strconv.Itoa(c.ConcRev(n))
			}
		}
		res.rels, res.err = b.st.Query(q)
	default:
		res.err = fmt.Errorf("unknown op %q", call.Op)
	}
	return res
}

// ---- abstraction ------------------------------------------------------------------------

// table maps the digest of every release the scenario can legitimately hold to its abstract tuple.
type table struct {
	byDigest map[string]AbsRel
	projs    map[AbsRel]*Proj
	big      map[AbsRel]bool
}

func buildTable(c *Conc, sc Scenario) (*table, error) {
	t := &table{byDigest: map[string]AbsRel{}, projs: map[AbsRel]*Proj{}, big: map[AbsRel]bool{}}
	add := func(a AbsRel) error {
		if _, ok := t.projs[a]; ok {
			return nil
		}
		rel, big := c.Release(a)
		p, err := Project(rel)
		if err != nil {
			return fmt.Errorf("generated release %v does not project: %v", a, err)
		}
		d := p.Digest()
		if other, dup := t.byDigest[d]; dup {
			return fmt.Errorf("generated releases %v and %v have the same projection", a, other)
		}
		t.byDigest[d] = a
		t.projs[a] = p
		t.big[a] = big
		return nil
	}
	type kv struct {
		name string
		rev  int
	}
	variants := map[kv]map[int]bool{}
	for _, call := range sc.Calls {
		if call.Op != "create" && call.Op != "update" {
			continue
		}
		if err := add(AbsRel{call.Name, call.Rev, call.St, call.V}); err != nil {
			return nil, err
		}
		k := kv{call.Name, call.Rev}
		if variants[k] == nil {
			variants[k] = map[int]bool{}
		}
		variants[k][call.V] = true
	}
	// modify keeps the stored content and changes the status: every content the key can hold, with that status
	for _, call := range sc.Calls {
		if call.Op != "modify" {
			continue
		}
		for v := range variants[kv{call.Name, call.Rev}] {
			if err := add(AbsRel{call.Name, call.Rev, call.St, v}); err != nil {
				return nil, err
			}
		}
	}
	return t, nil
}

// abstract maps a release that came out of a driver back to its tuple; when its projection
// is none of the stored ones, v = 0 and diff names the fields that differ from the closest
// stored release with the same name and revision.
func (t *table) abstract(c *Conc, r *rspb.Release) (a AbsRel, diff []string, big bool) {
	if r == nil {
		return AbsRel{}, nil, false
	}
	p, err := Project(r)
	if err != nil {
		return AbsRel{Name: c.AbsName(r.Name), Rev: c.AbsRev(r.Version), St: "?", V: 0}, []string{"<unprojectable: " + err.Error() + ">"}, false
	}
	if a, ok := t.byDigest[p.Digest()]; ok {
		return a, nil, t.big[a]
	}
	a = AbsRel{Name: c.AbsName(r.Name), Rev: c.AbsRev(r.Version), St: c.AbsStatus(p.Status), V: 0}
	best := []string{"<no stored release with this name and revision>"}
	bestN := 1 << 30
	for cand, cp := range t.projs {
		if cand.Name != a.Name || cand.Rev != a.Rev {
			continue
		}
		d := DiffFields(cp, p)
		if len(d) < bestN {
			best, bestN, big = d, len(d), t.big[cand]
		}
	}
	return a, best, big
}

func sortRels(rs []AbsRel) {
	sort.Slice(rs, func(i, j int) bool {
		a, b := rs[i], rs[j]
		if a.Name != b.Name {
			return a.Name < b.Name
		}
		if a.Rev != b.Rev {
			return a.Rev < b.Rev
		}
		if a.St != b.St {
			return a.St < b.St
		}
		return a.V < b.V
	})
}

// ---- store projection ---------------------------------------------------------------------

// decodeRecord decodes a stored record body exactly (numbers stay json.Number: what is stored is
// judged here, not what helm's own decoder makes of it on the way out).
func decodeRecord(data string) (*rspb.Release, error) {
	b, err := base64.StdEncoding.DecodeString(data)
	if err != nil {
		return nil, err
	}
	if len(b) > 3 && b[0] == 0x1f && b[1] == 0x8b {
		zr, err := gzip.NewReader(bytes.NewReader(b))
		if err != nil {
			return nil, err
		}
		if b, err = io.ReadAll(zr); err != nil {
			return nil, err
		}
	}
	var r rspb.Release
	dec := json.NewDecoder(bytes.NewReader(b))
	dec.UseNumber()
	if err := dec.Decode(&r); err != nil {
		return nil, err
	}
	return &r, nil
}

func nestedStr(o map[string]interface{}, path ...string) (string, bool) {
	var cur interface{} = o
	for _, p := range path {
		m, ok := cur.(map[string]interface{})
		if !ok {
			return "", false
		}
		cur, ok = m[p]
		if !ok {
			return "", false
		}
	}
	s, ok := cur.(string)
	return s, ok
}

// absKey maps a stored object's name to the abstract key "n1/2" ("?<name>" when it is not the
// key of one of the scenario's releases).
func absKey(c *Conc, objName string) string {
	for abs, cn := range c.Names {
		re := regexp.MustCompile(`^sh\.helm\.release\.v1\.` + regexp.QuoteMeta(cn) + `\.v([0-9]+)$`)
		if m := re.FindStringSubmatch(objName); m != nil {
			n, err := strconv.Atoi(m[1])
			if err != nil || strconv.Itoa(n) != m[1] {
				continue
			}
			if a := c.AbsRev(n); a > 0 {
				return abs + "/" + strconv.Itoa(a)
			}
		}
	}
	return "?" + objName
}

// projectStore reads what the backend holds. Secret / ConfigMap backends are read from the
// simulated API server's objects (key = object name, body decoded here, labels from metadata);
// the memory driver has no other window than its own List.
func (b *backend) projectStore(c *Conc, t *table) (out map[string]StoreRec, panicked string) {
	defer func() {
		if r := recover(); r != nil {
			panicked = fmt.Sprint(r)
		}
	}()
	out = map[string]StoreRec{}
	if b.sim == nil {
		rels, err := b.st.List(func(*rspb.Release) bool { return true })
		if err != nil {
			out["?list-error"] = StoreRec{}
			return out, ""
		}
		if b.seenPtr == nil {
			b.seenPtr = map[*rspb.Release]AbsRel{}
		}
		for _, r := range rels {
			a, ok := b.seenPtr[r]
			if !ok {
				a, _, _ = t.abstract(c, r)
				if r != nil {
					b.seenPtr[r] = a
				}
			}
			k := a.Name + "/" + strconv.Itoa(a.Rev)
			for _, dup := out[k]; dup; _, dup = out[k] {
				k += "#dup"
			}
			out[k] = StoreRec{AbsRel: a}
		}
		return out, ""
	}
	res := "secrets"
	if b.kind == "configmap" {
		res = "configmaps"
	}
	if b.seen == nil {
		b.seen = map[string]StoreRec{}
	}
	// any write request the server saw since the last look (whatever its outcome) invalidates that object
	reqs := b.sim.Requests(b.reqSeen)
	b.reqSeen += len(reqs)
	for _, rq := range reqs {
		if rq.Method != "GET" {
			delete(b.seen, rq.Key.Name)
		}
	}
	for _, k := range b.sim.Keys() {
		if k.Resource != res || k.Namespace != b.ns {
			out["?"+k.String()] = StoreRec{}
			continue
		}
		key := absKey(c, k.Name)
		if sr, ok := b.seen[k.Name]; ok {
			out[key] = sr
			continue
		}
		o := b.sim.GetObj(k)
		if o == nil {
			continue
		}
		data, _ := nestedStr(o, "data", "release")
		if b.kind == "secret" { // Secret data is base64 on the wire
			raw, err := base64.StdEncoding.DecodeString(data)
			if err != nil {
				out[key] = StoreRec{AbsRel: AbsRel{Name: "?undecodable"}}
				continue
			}
			data = string(raw)
		}
		r, err := decodeRecord(data)
		if err != nil {
			out[key] = StoreRec{AbsRel: AbsRel{Name: "?undecodable"}}
			continue
		}
		lbl := map[string]string{}
		if md, ok := o["metadata"].(map[string]interface{}); ok {
			if ls, ok := md["labels"].(map[string]interface{}); ok {
				for lk, lv := range ls {
					lbl[lk] = fmt.Sprint(lv)
				}
			}
		}
		r.Labels = lbl // user labels live in the object's metadata; Project drops the system keys
		a, sdiff, _ := t.abstract(c, r)
		lab := &Sel{Name: c.AbsName(lbl["name"]), Owner: lbl["owner"], Status: c.AbsStatus(lbl["status"]), Version: c.AbsVersion(lbl["version"])}
		out[key] = StoreRec{AbsRel: a, Lab: lab, Diff: sdiff}
		b.seen[k.Name] = out[key]
	}
	return out, ""
}

// ---- one scenario ---------------------------------------------------------------------------

// Result of a scenario: per driver the trace, plus observations.
type Result struct {
	Traces map[string][]Event
	Obs    []Obs
}

// replyKey is what the drivers must agree on: the abstracted reply and the projected store. For get /
// update / delete "failed" and "notfound" are one outcome ("fails", as the property puts it; whether
// failing was right is decided against the specification).
func replyKey(op string, r *Reply, store map[string]StoreRec) string {
	if r.St == "failed" && (op == "get" || op == "update" || op == "delete" || op == "modify") {
		cp := *r
		cp.St = "notfound"
		r = &cp
	}
	type sk struct {
		K string
		R AbsRel
	}
	var ss []sk
	for k, v := range store {
		ss = append(ss, sk{k, v.AbsRel})
	}
	sort.Slice(ss, func(i, j int) bool { return ss[i].K < ss[j].K })
	b, _ := json.Marshal([]interface{}{r, ss})
	return string(b)
}

// RunScenario replays one call sequence, step by step, on every driver.
func RunScenario(seed int64, tier string, sc Scenario) (*Result, error) {
	c, err := NewConc(seed, sc, tier)
	if err != nil {
		return nil, err
	}
	t, err := buildTable(c, sc)
	if err != nil {
		return nil, err
	}
	drivers := sc.Drivers
	if len(drivers) == 0 {
		drivers = AllDrivers
	}
	res := &Result{Traces: map[string][]Event{}}
	backs := map[string]*backend{}
	for _, d := range drivers {
		b, err := newBackend(d, c.NS)
		if err != nil {
			return nil, err
		}
		backs[d] = b
		res.Traces[d] = []Event{{Ev: "reset", Scenario: sc.ID, Drv: d, Conc: c.Info(), Store: map[string]StoreRec{}}}
	}
	for i, call := range sc.Calls {
		call := call
		step := i + 1
		keys := map[string]string{}
		for _, d := range drivers {
			b := backs[d]
			rr := b.exec(c, call)
			class := classify(rr)
			raw := &Raw{Class: class}
			if rr.err != nil {
				raw.Err = rr.err.Error()
			}
			if rr.panic != "" {
				raw.Err = "PANIC: " + rr.panic
				res.Obs = append(res.Obs, Obs{Scenario: sc.ID, Step: step, Drv: d, Kind: "panic", Op: call.Op, Detail: rr.panic, Class: class})
			}
			if call.Name != "" {
				raw.CName = c.Names[call.Name]
				raw.Key = StorageKey(raw.CName, c.ConcRev(call.Rev))
				if call.Op == "create" || call.Op == "update" {
					raw.BigInt = t.big[AbsRel{call.Name, call.Rev, call.St, call.V}]
				}
			}
			rep := &Reply{St: class, Set: []AbsRel{}}
			// the property's reading of an error: a read / update / delete that fails with another error
			// than not-found still "fails" (StorageTrace.tla decides whether failing was right)
			if (class == "invalidkey" || class == "error") && (call.Op == "get" || call.Op == "update" || call.Op == "delete" || call.Op == "modify") {
				rep.St = "failed"
			} else if class == "invalidkey" {
				rep.St = "error"
			}
			if rr.rel != nil {
				a, diff, big := t.abstract(c, rr.rel)
				rep.Ret = a
				raw.BigInt = raw.BigInt || big
				if a.V == 0 {
					raw.Diff = diff
					res.Obs = append(res.Obs, Obs{Scenario: sc.ID, Step: step, Drv: d, Kind: "fidelity", Op: call.Op, CName: raw.CName, Fields: diff, BigInt: big,
						Detail: fmt.Sprintf("%s returned a release that differs from every release stored under %s/%d on %v", call.Op, call.Name, call.Rev, diff)})
				}
			}
			for _, r := range rr.rels {
				a, diff, big := t.abstract(c, r)
				rep.Set = append(rep.Set, a)
				if a.V == 0 {
					raw.Diff = diff
					raw.BigInt = raw.BigInt || big
					res.Obs = append(res.Obs, Obs{Scenario: sc.ID, Step: step, Drv: d, Kind: "fidelity", Op: call.Op, CName: c.Names[a.Name], Fields: diff, BigInt: big,
						Detail: fmt.Sprintf("%s returned a release %s/%d that differs from every release stored under that key on %v", call.Op, a.Name, a.Rev, diff)})
				}
			}
			sortRels(rep.Set)
			store, pan := b.projectStore(c, t)
			if pan != "" {
				res.Obs = append(res.Obs, Obs{Scenario: sc.ID, Step: step, Drv: d, Kind: "panic", Op: "list(projection)", Detail: pan})
				store = map[string]StoreRec{"?panic": {}}
			}
			for _, sr := range store {
				if sr.V == 0 && strings.HasPrefix(sr.Name, "n") {
					raw.BigInt = raw.BigInt || t.anyBig(sr.Name, sr.Rev)
					raw.StoreDiff = sr.Diff
				}
			}
			res.Traces[d] = append(res.Traces[d], Event{Ev: "call", Scenario: sc.ID, Drv: d, Step: step, Call: &call, Reply: rep, Store: store, Raw: raw})
			keys[d] = replyKey(call.Op, rep, store)
		}
		// step-by-step agreement of the drivers (on the abstracted reply and projected store)
		count := map[string]int{}
		for _, d := range drivers {
			count[keys[d]]++
		}
		if len(count) > 1 {
			major, n := "", 0
			for k, v := range count {
				if v > n || (v == n && k < major) {
					major, n = k, v
				}
			}
			var dissent []string
			for _, d := range drivers {
				if keys[d] != major {
					dissent = append(dissent, d)
				}
			}
			if n == 1 {
				dissent = append([]string{}, drivers...)
			}
			byKey := map[string][]string{}
			var order []string
			for _, d := range drivers {
				if _, ok := byKey[keys[d]]; !ok {
					order = append(order, keys[d])
				}
				byKey[keys[d]] = append(byKey[keys[d]], d)
			}
			var groups [][]string
			for _, k := range order {
				groups = append(groups, byKey[k])
			}
			res.Obs = append(res.Obs, Obs{Scenario: sc.ID, Step: step, Kind: "disagree", Op: call.Op, CName: c.Names[call.Name], Dissent: dissent, Groups: groups,
				Detail: fmt.Sprintf("drivers disagree at step %d (%s): %v differ from the others", step, call.Op, dissent)})
		}
	}
	return res, nil
}

func (t *table) anyBig(name string, rev int) bool {
	for a, b := range t.big {
		if a.Name == name && a.Rev == rev && b {
			return true
		}
	}
	return false
}
