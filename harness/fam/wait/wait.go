// Package wait replays the cases of spec/Wait.tla on helm's real status-watcher waiters
// (pkg/kube/statuswait.go, internal/statusreaders): every watched object lives in a fake dynamic
// client whose tracker publishes the object's SCRIPT, one status per tick, while the real
// Waiter method runs; the observation is how the wait ended and at which tick.
package wait

import (
	"bufio"
	"bytes"
	"encoding/json"
	"fmt"
	"os"
	"strings"
	"sync"
	"sync/atomic"
	"time"

	"k8s.io/apimachinery/pkg/api/meta"
	"k8s.io/apimachinery/pkg/apis/meta/v1/unstructured"
	"k8s.io/apimachinery/pkg/runtime/schema"
	"k8s.io/apimachinery/pkg/util/yaml"
	dynamicfake "k8s.io/client-go/dynamic/fake"
	"k8s.io/kubectl/pkg/scheme"

	"helm.sh/helm/v4/pkg/kube"

	"verif/harness/simcluster"
)

const ns = "ns1"

type ObjJ struct {
	Kind   string   `json:"kind"`
	Script []string `json:"script"`
}

type CaseJ struct {
	Method   string `json:"method"`   // hook | wait | waitjobs | delete
	Strategy string `json:"strategy"` // watcher | hookonly
	Objs     []ObjJ `json:"objs"`
	Ok       bool   `json:"ok"`    // expected (spec/Wait.tla:Expected); echoed, never used by the harness
	Tick     int    `json:"tick"`  // expected first tick at which the wait may end
	Ticks    int    `json:"ticks"` // length of the longest script
}

type Obs struct {
	Case      CaseJ  `json:"case"`
	Ok        bool   `json:"ok"`
	Err       string `json:"err"`
	RetTick   int    `json:"rettick"` // the tick that had been published when the waiter returned
	Deadline  bool   `json:"deadline"`
	ElapsedMs int    `json:"elapsedms"`
	Retried   bool   `json:"retried"`
	Harness   string `json:"harness"` // non-empty: the harness could not run the case
}

func at(sc []string, k int) string {
	if k <= len(sc) {
		return sc[k-1]
	}
	return sc[len(sc)-1]
}

func name(i int) string { return fmt.Sprintf("o%d", i+1) }

// manifest of object i of kind k in status st ("gone" has none)
func manifest(kind, nm, st string) string {
	switch kind {
	case "Job":
		head := fmt.Sprintf("apiVersion: batch/v1\nkind: Job\nmetadata:\n  name: %s\n  namespace: %s\n  generation: 1\nspec:\n  completions: 2\n  parallelism: 1\n  backoffLimit: 0\n  template:\n    spec:\n      restartPolicy: Never\n      containers:\n      - name: c\n        image: busybox\n", nm, ns)
		switch st {
		case "new":
			return head
		case "active":
			return head + "status:\n  startTime: \"2026-01-01T00:00:00Z\"\n  active: 1\n"
		case "succ1":
			return head + "status:\n  startTime: \"2026-01-01T00:00:00Z\"\n  active: 0\n  succeeded: 1\n"
		case "completeFalse":
			return head + "status:\n  startTime: \"2026-01-01T00:00:00Z\"\n  active: 1\n  succeeded: 1\n  conditions:\n  - type: Complete\n    status: \"False\"\n"
		case "complete":
			return head + "status:\n  startTime: \"2026-01-01T00:00:00Z\"\n  completionTime: \"2026-01-01T00:01:00Z\"\n  succeeded: 2\n  conditions:\n  - type: Complete\n    status: \"True\"\n"
		case "failed":
			return head + "status:\n  startTime: \"2026-01-01T00:00:00Z\"\n  failed: 1\n  conditions:\n  - type: Failed\n    status: \"True\"\n    reason: BackoffLimitExceeded\n"
		}
	case "Pod":
		head := fmt.Sprintf("apiVersion: v1\nkind: Pod\nmetadata:\n  name: %s\n  namespace: %s\nspec:\n  containers:\n  - name: c\n    image: busybox\n", nm, ns)
		switch st {
		case "new":
			return head
		case "pending":
			return head + "status:\n  phase: Pending\n"
		case "running":
			return head + "status:\n  phase: Running\n  conditions:\n  - type: Ready\n    status: \"False\"\n"
		case "ready":
			return head + "status:\n  phase: Running\n  conditions:\n  - type: Ready\n    status: \"True\"\n"
		case "succeeded":
			return head + "status:\n  phase: Succeeded\n"
		case "failed":
			return head + "status:\n  phase: Failed\n"
		}
	case "ConfigMap":
		if st == "present" {
			return fmt.Sprintf("apiVersion: v1\nkind: ConfigMap\nmetadata:\n  name: %s\n  namespace: %s\ndata:\n  k: v\n", nm, ns)
		}
	}
	return ""
}

func toUnstructured(m string) (*unstructured.Unstructured, error) {
	// through JSON, as objects read from an API server are: integers stay int64
	js, err := yaml.ToJSON([]byte(m))
	if err != nil {
		return nil, err
	}
	u := &unstructured.Unstructured{}
	if err := u.UnmarshalJSON(js); err != nil {
		return nil, err
	}
	return u, nil
}

func gvrOf(mapper meta.RESTMapper, u *unstructured.Unstructured) (schema.GroupVersionResource, error) {
	gvk := u.GroupVersionKind()
	m, err := mapper.RESTMapping(gvk.GroupKind(), gvk.Version)
	if err != nil {
		return schema.GroupVersionResource{}, err
	}
	return m.Resource, nil
}

// watchMapper: the kinds the cases use, with default versions (the status watcher asks for a mapping by
// group and kind only, as a discovery-backed mapper would answer it)
func watchMapper() meta.RESTMapper {
	gvs := []schema.GroupVersion{{Group: "", Version: "v1"}, {Group: "batch", Version: "v1"}}
	m := meta.NewDefaultRESTMapper(gvs)
	m.Add(schema.GroupVersionKind{Group: "", Version: "v1", Kind: "Pod"}, meta.RESTScopeNamespace)
	m.Add(schema.GroupVersionKind{Group: "", Version: "v1", Kind: "ConfigMap"}, meta.RESTScopeNamespace)
	m.Add(schema.GroupVersionKind{Group: "batch", Version: "v1", Kind: "Job"}, meta.RESTScopeNamespace)
	return m
}

// RunCase runs one case with the given step between ticks; okTimeout bounds waits that are expected to
// end well (it is never reached then), errGrace is how long after the last tick a wait that cannot end
// well is given before its own timeout fires.
func RunCase(c CaseJ, step, okTimeout, errGrace time.Duration) (o Obs) {
	o.Case = c
	defer func() {
		if r := recover(); r != nil {
			o.Harness = fmt.Sprint("panic: ", r)
		}
	}()
	legacy := c.Strategy == "legacy"
	sim := simcluster.New()
	sim.Watch = true
	mapper := watchMapper()
	fc := dynamicfake.NewSimpleDynamicClient(scheme.Scheme)
	// what helm holds while it waits: the objects as it built them from the manifest (no status)
	var all bytes.Buffer
	for i, ob := range c.Objs {
		first := "new"
		if ob.Kind == "ConfigMap" {
			first = "present"
		}
		all.WriteString("---\n" + manifest(ob.Kind, name(i), first))
	}
	kc := &kube.Client{Factory: &simcluster.Factory{RT: sim.Transport(-1), Namespace: ns}, Namespace: ns}
	list, err := kc.Build(&all, false)
	if err != nil {
		o.Harness = "build: " + err.Error()
		return
	}
	apply := func(k int) error {
		for i, ob := range c.Objs {
			st := at(ob.Script, k)
			if k > 1 && st == at(ob.Script, k-1) {
				continue
			}
			if st == "gone" {
				if k == 1 {
					continue
				}
				u, _ := toUnstructured(manifest(ob.Kind, name(i), map[bool]string{true: "present", false: "new"}[ob.Kind == "ConfigMap"]))
				gvr, err := gvrOf(mapper, u)
				if err != nil {
					return err
				}
				if legacy {
					sim.Remove(simcluster.Key{Group: gvr.Group, Version: gvr.Version, Resource: gvr.Resource, Namespace: ns, Name: name(i)})
					continue
				}
				if err := fc.Tracker().Delete(gvr, ns, name(i)); err != nil {
					return err
				}
				continue
			}
			u, err := toUnstructured(manifest(ob.Kind, name(i), st))
			if err != nil {
				return err
			}
			gvr, err := gvrOf(mapper, u)
			if err != nil {
				return err
			}
			if legacy {
				// (the legacy waiters read through the real typed / REST clients: the objects live in the simulated API server)
				sim.Put(simcluster.Key{Group: gvr.Group, Version: gvr.Version, Resource: gvr.Resource, Namespace: ns, Name: name(i)}, u.Object)
				continue
			}
			if k == 1 {
				err = fc.Tracker().Create(gvr, u, ns)
			} else {
				err = fc.Tracker().Update(gvr, u, ns)
			}
			if err != nil {
				return err
			}
		}
		return nil
	}
	if err := apply(1); err != nil {
		o.Harness = "tracker: " + err.Error()
		return
	}
	strat := kube.StatusWatcherStrategy
	if c.Strategy == "hookonly" {
		strat = kube.HookOnlyStrategy
	}
	var w kube.Waiter
	if legacy {
		lw, err := kc.GetWaiter(kube.LegacyStrategy)
		if err != nil {
			o.Harness = "legacy waiter: " + err.Error()
			return
		}
		w = lw
	} else {
		w = kube.NewStatusWaiterForVerif(strat, fc, mapper)
	}
	timeout := okTimeout
	if !c.Ok {
		timeout = time.Duration(c.Ticks-1)*step + errGrace
	}
	var tick atomic.Int32
	tick.Store(1)
	type res struct {
		err  error
		tick int
	}
	done := make(chan res, 1)
	start := time.Now()
	go func() {
		var err error
		switch c.Method {
		case "hook":
			err = w.WatchUntilReady(list, timeout)
		case "wait":
			err = w.Wait(list, timeout)
		case "waitjobs":
			err = w.WaitWithJobs(list, timeout)
		case "delete":
			err = w.WaitForDelete(list, timeout)
		default:
			err = fmt.Errorf("harness: unknown method %s", c.Method)
		}
		done <- res{err, int(tick.Load())}
	}()
	var herr error
	for k := 2; k <= c.Ticks; k++ {
		time.Sleep(step)
		// (the tick counts as published from the moment its publication BEGINS: a waiter may see the new status and
		//  return before apply comes back)
		tick.Store(int32(k))
		if err := apply(k); err != nil {
			herr = err
			break
		}
	}
	var r res
	select {
	case r = <-done:
	case <-time.After(timeout + 20*time.Second):
		o.Harness = "the waiter did not return 20s after its own timeout"
		return
	}
	o.ElapsedMs = int(time.Since(start) / time.Millisecond)
	if herr != nil {
		o.Harness = "tracker: " + herr.Error()
		return
	}
	o.RetTick = r.tick
	o.Ok = r.err == nil
	if r.err != nil {
		o.Err = r.err.Error()
		o.Deadline = strings.Contains(o.Err, "context deadline exceeded")
	}
	return
}

// Run reads cases (NDJSON), runs them par at a time and writes the observations in the same order.
func Run(in, out string, par int, step time.Duration) (int, error) {
	f, err := os.Open(in)
	if err != nil {
		return 0, err
	}
	defer f.Close()
	var cases []CaseJ
	sc := bufio.NewScanner(f)
	sc.Buffer(make([]byte, 1<<20), 1<<26)
	for sc.Scan() {
		if len(bytes.TrimSpace(sc.Bytes())) == 0 {
			continue
		}
		var c CaseJ
		if err := json.Unmarshal(sc.Bytes(), &c); err != nil {
			return 0, err
		}
		cases = append(cases, c)
	}
	obs := make([]Obs, len(cases))
	var wg sync.WaitGroup
	sem := make(chan struct{}, par)
	for i := range cases {
		wg.Add(1)
		sem <- struct{}{}
		go func(i int) {
			defer wg.Done()
			defer func() { <-sem }()
			obs[i] = RunCase(cases[i], step, 20*time.Second, 1500*time.Millisecond)
		}(i)
	}
	wg.Wait()
	// a wait that was expected to end well and hit its (generous) timeout is run once more, alone and slowly:
	// a loaded machine must not look like a defect
	for i := range obs {
		if obs[i].Harness == "" && cases[i].Ok && !obs[i].Ok && obs[i].Deadline {
			o2 := RunCase(cases[i], 2*step, 60*time.Second, 3*time.Second)
			o2.Retried = true
			obs[i] = o2
		}
	}
	w, err := os.Create(out)
	if err != nil {
		return 0, err
	}
	defer w.Close()
	bw := bufio.NewWriter(w)
	for _, o := range obs {
		b, _ := json.Marshal(o)
		bw.Write(b)
		bw.WriteByte('\n')
	}
	return len(obs), bw.Flush()
}
