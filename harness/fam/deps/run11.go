package deps

import (
	"bytes"
	"encoding/json"
	"fmt"
	"io"
	"os"
	"path/filepath"
	"regexp"
	"strings"
	"time"

	"sigs.k8s.io/yaml"

	"helm.sh/helm/v4/pkg/action"
	chart "helm.sh/helm/v4/pkg/chart/v2"
	chartutil "helm.sh/helm/v4/pkg/chart/v2/util"
	"helm.sh/helm/v4/pkg/cli/values"
	"helm.sh/helm/v4/pkg/engine"
	"helm.sh/helm/v4/pkg/getter"
	kubefake "helm.sh/helm/v4/pkg/kube/fake"
	"helm.sh/helm/v4/pkg/storage"
	"helm.sh/helm/v4/pkg/storage/driver"
)

// Seen is the .Values one chart instance's probe template saw.
type Seen struct {
	P      []string `json:"P"`
	Leaves []Leaf   `json:"leaves"`
}

// Obs11 is one observation line for DepsObs.tla.
type Obs11 struct {
	ID    string          `json:"id"`
	Shape string          `json:"shape"`
	Case  json.RawMessage `json:"case"`
	// run A: ProcessDependencies -> ToRenderValues -> engine.Render
	AOk      bool       `json:"aok"`
	AErr     string     `json:"aerr"`
	Rendered [][]string `json:"rendered"` // instances whose probe template was rendered
	Seen     []Seen     `json:"seen"`
	Stray    []string   `json:"stray"` // rendered paths that belong to no known file
	// run D: engine.Render alone, on the processed chart with the RAW user values (nothing coalesced, so a subchart
	// has a values table only if the user wrote one): what the engine's own scoping hands to each chart
	DOk     bool   `json:"dok"`
	DErr    string `json:"derr"`
	SeenRaw []Seen `json:"seenraw"`
	// run B: action.Install as `helm template --include-crds` does it
	BOk       bool       `json:"bok"`
	BErr      string     `json:"berr"`
	SchemaErr bool       `json:"schemaErr"` // B failed at the schema gate
	Named     []string   `json:"named"`     // chart names the schema error lists
	Manifest  [][]string `json:"manifest"`  // instances with a document in the manifest
	Hooks     [][]string `json:"hooks"`     // instances that contributed a hook
	Notes     [][]string `json:"notes"`     // instances whose NOTES.txt is in the notes
	Crds      [][]string `json:"crds"`      // instances whose crds/ file is in the output
	// run C (a seeded share of the cases): a real action.Install with the case's user values over the simulated
	// cluster, then action.Upgrade with NO values in the default / reuse / reset-then-reuse / reset modes
	Hist      bool       `json:"hist"`
	IOk       bool       `json:"iok"`
	IErr      string     `json:"ierr"`
	ISchema   bool       `json:"ischema"`   // the install was rejected by the schema gate
	ICrds     [][]string `json:"icrds"`     // chart directories (path of original chart names) whose CRD is in the cluster after the install
	IManifest [][]string `json:"imanifest"` // instances with a document in the stored manifest of the install
	Ups       []UpObs    `json:"ups"`
}

// UpObs is what one upgrade of the history route produced.
type UpObs struct {
	Mode     string     `json:"mode"` // upgrade | upgrade-reuse | upgrade-reset-then-reuse | upgrade-reset
	Ok       bool       `json:"ok"`
	Err      string     `json:"err"`
	Schema   bool       `json:"schema"`   // rejected by the schema gate (nothing to judge then)
	Manifest [][]string `json:"manifest"` // instances with a document in the new revision's manifest
	Hooks    [][]string `json:"hooks"`    // instances that contributed a hook
	Stored   [][]string `json:"stored"`   // instances left in the chart stored with the new revision
	Ran      [][]string `json:"ran"`      // instances whose pre-upgrade hook object was created in the cluster by this upgrade
	RanPost  [][]string `json:"ranpost"`  // ... whose post-upgrade hook object was
}

const schemaErrPrefix = "values don't meet the specifications of the schema(s) in the following chart(s):"

// UserValues builds the user-supplied values the way the CLI does: a values file plus --set
// arguments through values.Options.MergeValues.
func (c *Case) UserValues(tmp string) (map[string]interface{}, error) {
	opts := values.Options{}
	if len(c.User) > 0 {
		f := filepath.Join(tmp, "user-values.yaml")
		if err := os.WriteFile(f, []byte(yamlOf(Tree(c.User))), 0o644); err != nil {
			return nil, err
		}
		opts.ValueFiles = []string{f}
	}
	sets, err := setArgs(c.Uset)
	if err != nil {
		return nil, err
	}
	opts.Values = sets
	return opts.MergeValues(getter.Providers{})
}

func namedCharts(c *Case, msg string) []string {
	cands := map[string]bool{"root": true}
	for p := range c.Instances() {
		if p != "" {
			parts := strings.Split(p, "/")
			cands[parts[len(parts)-1]] = true
		}
	}
	for n := range c.Charts { // the original chart names too (an alias must hide them)
		cands[n] = true
	}
	out := []string{}
	for _, n := range sortedKeys(cands) {
		if regexp.MustCompile(`(?m)^` + regexp.QuoteMeta(n) + `:$`).MatchString(msg) {
			out = append(out, n)
		}
	}
	return out
}

func probeValues(doc string) (map[string]interface{}, error) {
	var cm struct {
		Data map[string]string `json:"data"`
	}
	if err := yaml.Unmarshal([]byte(doc), &cm); err != nil {
		return nil, err
	}
	raw, ok := cm.Data["probe"]
	if !ok {
		return nil, fmt.Errorf("no probe key")
	}
	d := json.NewDecoder(strings.NewReader(raw))
	d.UseNumber()
	var v map[string]interface{}
	if err := d.Decode(&v); err != nil {
		return nil, err
	}
	if v == nil {
		v = map[string]interface{}{}
	}
	return v, nil
}

func catch(err *string) {
	if r := recover(); r != nil {
		*err = fmt.Sprintf("PANIC: %v", r)
	}
}

// Run11 runs one C11 case on the real code.
func Run11(cf CaseFile, tmp string) Obs11 {
	o := Obs11{ID: cf.ID, Shape: cf.Shape, Case: cf.Case, Rendered: [][]string{}, Seen: []Seen{}, SeenRaw: []Seen{}, Stray: []string{},
		Named: []string{}, Manifest: [][]string{}, Hooks: [][]string{}, Notes: [][]string{}, Crds: [][]string{},
		ICrds: [][]string{}, IManifest: [][]string{}, Ups: []UpObs{}}
	var c Case
	if err := json.Unmarshal(cf.Case, &c); err != nil {
		o.AErr = "bad case: " + err.Error()
		o.BErr = o.AErr
		return o
	}
	runA(&c, tmp, &o)
	runD(&c, tmp, &o)
	runB(&c, tmp, &o)
	if cf.Hist {
		o.Hist = true
		runC(&c, tmp, &o)
	}
	return o
}

func runA(c *Case, tmp string, o *Obs11) {
	defer catch(&o.AErr)
	vals, err := c.UserValues(tmp)
	if err != nil {
		o.AErr = "values: " + err.Error()
		return
	}
	ch, err := c.Load(BuildOpts{})
	if err != nil {
		o.AErr = "load: " + err.Error()
		return
	}
	if err := chartutil.ProcessDependencies(ch, vals); err != nil {
		o.AErr = "ProcessDependencies: " + err.Error()
		return
	}
	// no schema validation here: run A observes enabling and scoping only (run B has the gate)
	rv, err := chartutil.ToRenderValuesWithSchemaValidation(ch, vals, chartutil.ReleaseOptions{Name: "rel", Namespace: "default", Revision: 1, IsInstall: true}, nil, true)
	if err != nil {
		o.AErr = "ToRenderValues: " + err.Error()
		return
	}
	files, err := engine.Render(ch, rv)
	if err != nil {
		o.AErr = "Render: " + err.Error()
		return
	}
	rendered := map[string]bool{}
	for path, doc := range files {
		inst, kind, ok := instOf(path)
		if !ok {
			o.Stray = append(o.Stray, path)
			continue
		}
		if kind != "probe" {
			continue
		}
		rendered[inst] = true
		v, err := probeValues(doc)
		if err != nil {
			o.AErr = "probe of " + path + ": " + err.Error()
			return
		}
		o.Seen = append(o.Seen, Seen{P: splitInst(inst), Leaves: Flatten(v)})
	}
	o.Rendered = instList(rendered)
	o.AOk = true
}

func runD(c *Case, tmp string, o *Obs11) {
	defer catch(&o.DErr)
	vals, err := c.UserValues(tmp)
	if err != nil {
		o.DErr = "values: " + err.Error()
		return
	}
	ch, err := c.Load(BuildOpts{})
	if err != nil {
		o.DErr = "load: " + err.Error()
		return
	}
	if err := chartutil.ProcessDependencies(ch, vals); err != nil {
		o.DErr = "ProcessDependencies: " + err.Error()
		return
	}
	top := chartutil.Values{
		"Chart":        ch.Metadata,
		"Capabilities": chartutil.DefaultCapabilities,
		"Release":      map[string]interface{}{"Name": "rel", "Namespace": "default", "IsInstall": true, "IsUpgrade": false, "Revision": 1, "Service": "Helm"},
		"Values":       chartutil.Values(vals),
	}
	files, err := engine.Render(ch, top)
	if err != nil {
		o.DErr = "Render: " + err.Error()
		return
	}
	for path, doc := range files {
		inst, kind, ok := instOf(path)
		if !ok || kind != "probe" {
			continue
		}
		v, err := probeValues(doc)
		if err != nil {
			o.DErr = "probe of " + path + ": " + err.Error()
			return
		}
		o.SeenRaw = append(o.SeenRaw, Seen{P: splitInst(inst), Leaves: Flatten(v)})
	}
	o.DOk = true
}

var sourceRe = regexp.MustCompile(`(?m)^# Source: (\S+)$`)
var notesRe = regexp.MustCompile(`(?m)^NOTES (\S+)$`)

func templateInstall() *action.Install {
	cfg := &action.Configuration{
		Capabilities: chartutil.DefaultCapabilities.Copy(),
		KubeClient:   &kubefake.PrintingKubeClient{Out: io.Discard},
		Releases:     storage.Init(driver.NewMemory()),
	}
	in := action.NewInstall(cfg)
	// what `helm template` sets (pkg/cmd/template.go)
	in.DryRun = true
	in.DryRunOption = "true"
	in.ReleaseName = "release-name"
	in.Replace = true
	in.ClientOnly = true
	in.Namespace = "default"
	return in
}

func runB(c *Case, tmp string, o *Obs11) {
	defer catch(&o.BErr)
	vals, err := c.UserValues(tmp)
	if err != nil {
		o.BErr = "values: " + err.Error()
		return
	}
	ch, err := c.Load(BuildOpts{})
	if err != nil {
		o.BErr = "load: " + err.Error()
		return
	}
	in := templateInstall()
	in.IncludeCRDs = true
	in.SubNotes = true
	rel, err := in.Run(ch, vals)
	if err != nil {
		o.BErr = err.Error()
		if strings.Contains(o.BErr, schemaErrPrefix) {
			o.SchemaErr = true
			o.Named = namedCharts(c, o.BErr)
		}
		return
	}
	man, hooks, notes, crds := map[string]bool{}, map[string]bool{}, map[string]bool{}, map[string]bool{}
	for _, m := range sourceRe.FindAllStringSubmatch(rel.Manifest, -1) {
		inst, kind, ok := instOf(m[1])
		if !ok {
			o.Stray = append(o.Stray, m[1])
			continue
		}
		switch kind {
		case "probe":
			man[inst] = true
		case "crd":
			crds[inst] = true
		}
	}
	for _, h := range rel.Hooks {
		inst, _, ok := instOf(h.Path)
		if !ok {
			o.Stray = append(o.Stray, h.Path)
			continue
		}
		hooks[inst] = true
	}
	var nb bytes.Buffer
	nb.WriteString(rel.Info.Notes)
	for _, m := range notesRe.FindAllStringSubmatch(nb.String(), -1) {
		inst, _, ok := instOf(m[1])
		if !ok {
			o.Stray = append(o.Stray, m[1])
			continue
		}
		notes[inst] = true
	}
	o.Manifest, o.Hooks, o.Notes, o.Crds = instList(man), instList(hooks), instList(notes), instList(crds)
	o.BOk = true
}

func manifestInsts(man string) map[string]bool {
	out := map[string]bool{}
	for _, m := range sourceRe.FindAllStringSubmatch(man, -1) {
		if inst, kind, ok := instOf(m[1]); ok && kind == "probe" {
			out[inst] = true
		}
	}
	return out
}

// runC: the history route. Everything is the real pkg/action code over the simulated cluster (Secrets storage).
func runC(c *Case, tmp string, o *Obs11) {
	defer catch(&o.IErr)
	vals, err := c.UserValues(tmp)
	if err != nil {
		o.IErr = "values: " + err.Error()
		return
	}
	ch, err := c.Load(BuildOpts{})
	if err != nil {
		o.IErr = "load: " + err.Error()
		return
	}
	e := newEnv()
	rel, err := newInstall(e.config(), false).Run(ch, vals)
	// whatever the outcome: which CRDs reached the cluster?
	crds := [][]string{}
	for _, k := range e.sim.Keys() {
		if k.Resource == "customresourcedefinitions" {
			if rp, ok := rawPathOfCRD(k.Name); ok {
				crds = append(crds, rp)
			} else {
				o.Stray = append(o.Stray, "crd "+k.Name)
			}
		}
	}
	o.ICrds = crds
	if err != nil {
		o.IErr = err.Error()
		o.ISchema = strings.Contains(o.IErr, schemaErrPrefix)
		return
	}
	o.IOk = true
	o.IManifest = instList(manifestInsts(rel.Manifest))
	type mode struct {
		name           string
		reuse, rtr, rs bool
	}
	upgrade := func(e *env, m mode, newVals func() (map[string]interface{}, error)) (u UpObs) {
		u = UpObs{Mode: m.name, Manifest: [][]string{}, Hooks: [][]string{}, Stored: [][]string{}, Ran: [][]string{}, RanPost: [][]string{}}
		defer catch(&u.Err)
		nch, err := c.Load(BuildOpts{})
		if err != nil {
			u.Err = "load: " + err.Error()
			return u
		}
		nv, err := newVals()
		if err != nil {
			u.Err = "values: " + err.Error()
			return u
		}
		up := action.NewUpgrade(e.config())
		up.Namespace = relNS
		up.Timeout = 5 * time.Second
		up.ReuseValues, up.ResetThenReuseValues, up.ResetValues = m.reuse, m.rtr, m.rs
		mark := e.log.len()
		nrel, err := up.Run(relName, nch, nv)
		// whatever the outcome: which hook objects did the upgrade create in the cluster?
		ran, ranpost := map[string]bool{}, map[string]bool{}
		for _, r := range e.log.from(mark) {
			if r.Method == "POST" && r.Status < 300 {
				if inst, kind, ok := instOfHookObject(r.Name); ok {
					if kind == "hook" {
						ran[inst] = true
					} else {
						ranpost[inst] = true
					}
				}
			}
		}
		u.Ran, u.RanPost = instList(ran), instList(ranpost)
		if err != nil {
			u.Err = err.Error()
			u.Schema = strings.Contains(u.Err, schemaErrPrefix)
			return u
		}
		u.Ok = true
		u.Manifest = instList(manifestInsts(nrel.Manifest))
		hooks := map[string]bool{}
		for _, h := range nrel.Hooks {
			if inst, _, ok := instOf(h.Path); ok {
				hooks[inst] = true
			}
		}
		u.Hooks = instList(hooks)
		stored := map[string]bool{}
		var walk func(prefix string, x *chart.Chart)
		walk = func(prefix string, x *chart.Chart) {
			stored[prefix] = true
			for _, d := range x.Dependencies() {
				p := d.Name()
				if prefix != "" {
					p = prefix + "/" + d.Name()
				}
				walk(p, d)
			}
		}
		walk("", nrel.Chart)
		u.Stored = instList(stored)
		return u
	}
	none := func() (map[string]interface{}, error) { return map[string]interface{}{}, nil } // no values given
	// the reset comes last: the other three leave the deployed user values in the record
	for _, m := range []mode{{"upgrade", false, false, false}, {"upgrade-reuse", true, false, false},
		{"upgrade-reset-then-reuse", false, true, false}, {"upgrade-reset", false, false, true}} {
		o.Ups = append(o.Ups, upgrade(e, m, none))
	}
	// the other way round: a release installed with the chart defaults only is upgraded WITH the case's values, so
	// whatever those values switch on or off changes between the deployed and the new revision
	func() {
		u := UpObs{Mode: "upgrade-new", Manifest: [][]string{}, Hooks: [][]string{}, Stored: [][]string{}, Ran: [][]string{}, RanPost: [][]string{}}
		e2 := newEnv()
		ch0, err := c.Load(BuildOpts{})
		if err == nil {
			_, err = newInstall(e2.config(), false).Run(ch0, map[string]interface{}{})
		}
		if err != nil {
			u.Err = "first install: " + err.Error()
			u.Schema = strings.Contains(u.Err, schemaErrPrefix)
			o.Ups = append(o.Ups, u)
			return
		}
		o.Ups = append(o.Ups, upgrade(e2, mode{"upgrade-new", false, false, false}, func() (map[string]interface{}, error) { return c.UserValues(tmp) }))
	}()
}
