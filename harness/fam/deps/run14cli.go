//go:build verif

package deps

import (
	"bytes"
	"fmt"
	"io"
	"log/slog"
	"os"
	"path/filepath"
	"strings"
	"sync"
	"time"

	"helm.sh/helm/v4/pkg/action"
	"helm.sh/helm/v4/pkg/chart/v2/loader"
	helmcmd "helm.sh/helm/v4/pkg/cmd"
)

// pkg/cmd keeps its settings in package globals: one command line at a time.
var cliMu sync.Mutex

// runCLI executes one helm command line (flag parsing and command wiring of pkg/cmd included)
// against the injected configuration; returns what the command printed and its error.
func runCLI(cfg *action.Configuration, args []string) (string, error) {
	cliMu.Lock()
	defer cliMu.Unlock()
	var out bytes.Buffer
	root, err := helmcmd.NewRootCmdWithConfigForVerif(cfg, &out, args)
	slog.SetDefault(slog.New(slog.NewTextHandler(io.Discard, nil))) // the root command installs helm's own logger
	if err != nil {
		return "", err
	}
	root.SetArgs(args)
	root.SetOut(&out)
	root.SetErr(io.Discard)
	err = root.Execute()
	return out.String(), err
}

// the flags that must NOT switch the schema gate off
var otherFlags = []string{"--skip-crds", "--no-hooks", "--force", "--create-namespace", "--atomic"}
var otherLintFlags = []string{"--strict", "--quiet"}

type cliVariant struct {
	flags []string
	skip  bool
}

func cliVariants(allValid bool, single string, others []string) []cliVariant {
	vs := []cliVariant{{nil, false}}
	if allValid {
		return vs // nothing for any flag to switch off
	}
	vs = append(vs, cliVariant{[]string{"--skip-schema-validation"}, true}, cliVariant{others, false})
	for _, f := range others {
		if f == single {
			vs = append(vs, cliVariant{[]string{f}, false})
		}
	}
	return vs
}

func (c *Case) valueArgs(tmp string) ([]string, error) {
	args := []string{}
	if len(c.User) > 0 {
		f := filepath.Join(tmp, "cli-values.yaml")
		if err := os.WriteFile(f, []byte(yamlOf(Tree(c.User))), 0o644); err != nil {
			return nil, err
		}
		args = append(args, "-f", f)
	}
	sets, err := setArgs(c.Uset)
	if err != nil {
		return nil, err
	}
	for _, s := range sets {
		args = append(args, "--set", s)
	}
	return args, nil
}

// cliOps runs the C14 operations of one case through the helm command line.
//
//	cli-install, cli-dryrun (--dry-run=server), cli-template, cli-upgrade (after a valid install),
//	cli-upinstall-empty / cli-upinstall-uninstalled (`upgrade --install` on an empty history / after
//	`uninstall --keep-history`: both dispatch to the install action), cli-lint
//
// each plain, with --skip-schema-validation, with all the other flags, and with one of them alone.
func cliOps(c *Case, chartDir, tmp string, allValid bool, single string) []OpObs {
	out := []OpObs{}
	vargs, verr := c.valueArgs(tmp)
	type kind struct {
		mode, base string
		prep       func(e *env) error
		args       []string
	}
	baseline := func(e *env) error {
		base, err := loader.LoadFiles(baseFiles)
		if err != nil {
			return err
		}
		_, err = newInstall(e.config(), false).Run(base, map[string]interface{}{})
		return err
	}
	uninstalled := func(e *env) error {
		if err := baseline(e); err != nil {
			return err
		}
		un := action.NewUninstall(e.config())
		un.KeepHistory = true
		un.Timeout = 5 * time.Second
		_, err := un.Run(relName)
		return err
	}
	ns := []string{"--namespace", relNS}
	kinds := []kind{
		{"cli-install", "install", nil, append([]string{"install", relName, chartDir}, ns...)},
		{"cli-dryrun", "dryrun", nil, append([]string{"install", relName, chartDir, "--dry-run=server"}, ns...)},
		{"cli-template", "template", nil, append([]string{"template", relName, chartDir}, ns...)},
		{"cli-upgrade", "upgrade", baseline, append([]string{"upgrade", relName, chartDir}, ns...)},
		{"cli-upinstall-empty", "install", nil, append([]string{"upgrade", "--install", relName, chartDir}, ns...)},
		{"cli-upinstall-uninstalled", "install", uninstalled, append([]string{"upgrade", "--install", relName, chartDir}, ns...)},
	}
	for _, k := range kinds {
		for _, v := range cliVariants(allValid, single, otherFlags) {
			o := OpObs{Mode: k.mode, Base: k.base, Flags: strings.Join(v.flags, " "), Skip: v.skip, Named: []string{}}
			func() {
				defer func() {
					if r := recover(); r != nil {
						o.Ok = false
						o.Err = fmt.Sprintf("PANIC: %v", r)
					}
				}()
				if verr != nil {
					o.Err = "values: " + verr.Error()
					return
				}
				e := newEnv()
				cfg := e.config()
				if k.prep != nil {
					if err := k.prep(e); err != nil {
						o.Err = "preparation: " + err.Error()
						return
					}
				}
				mark, smark := e.log.len(), e.store.nw()
				args := append(append(append([]string{}, k.args...), vargs...), v.flags...)
				_, err := runCLI(cfg, args)
				o.fillErr(c, err)
				o.fillLog(e.log.from(mark), e.store.nw()-smark)
			}()
			out = append(out, o)
		}
	}
	for _, v := range cliVariants(allValid, "", otherLintFlags) {
		o := OpObs{Mode: "cli-lint", Base: "lint", Flags: strings.Join(v.flags, " "), Skip: v.skip, Named: []string{}}
		func() {
			defer func() {
				if r := recover(); r != nil {
					o.Ok = false
					o.Err = fmt.Sprintf("PANIC: %v", r)
				}
			}()
			if verr != nil {
				o.Err = "values: " + verr.Error()
				return
			}
			args := append(append([]string{"lint", chartDir, "--namespace", relNS}, vargs...), v.flags...)
			txt, err := runCLI(newEnv().config(), args)
			o.Ok = err == nil
			if err != nil {
				o.Err = err.Error() + " | " + txt
			}
			for _, line := range strings.Split(txt, "[ERROR] ")[1:] {
				if isSchemaComplaint(line) {
					o.SchemaErr = true
					o.Named = append(o.Named, namedCharts(c, line)...)
				}
			}
		}()
		out = append(out, o)
	}
	return out
}
