// Package deps is the Go side of the C11 / C14 checks: it turns the cases that TLC
// enumerated from spec/Deps.tla and spec/Schema.tla into real charts, runs the real
// helm code on them and writes what it observed as NDJSON for DepsObs.tla / SchemaObs.tla.
package deps

import (
	"encoding/json"
	"fmt"
	"sort"
	"strconv"
	"strings"
)

// Leaf is one leaf of a value tree: key path + token
// ("true" | "false" | "s:<text>" | "n:<int>" | "{}").
type Leaf struct {
	P []string `json:"p"`
	V string   `json:"v"`
}

// Dep is one entry of Chart.yaml `dependencies`.
type Dep struct {
	Name  string     `json:"name"`
	Alias string     `json:"alias"`
	Cond  [][]string `json:"cond"`
	Tags  []string   `json:"tags"`
}

func (d Dep) IName() string {
	if d.Alias != "" {
		return d.Alias
	}
	return d.Name
}

// Constraint is one element of the mini schema family (spec/Schema.tla):
// k = type | required | enum | minimum | maximum | closed, at object/property path P.
type Constraint struct {
	K string   `json:"k"`
	P []string `json:"p"`
	A []string `json:"a"`
}

type ChartDef struct {
	Deps     []Dep        `json:"deps"`
	Defaults []Leaf       `json:"defaults"`
	Schema   []Constraint `json:"schema"`
	Crds     bool         `json:"crds"`
	NoTpl    bool         `json:"notpl"` // no file under templates/ at all (a pure grouping chart)
}

type Case struct {
	Charts map[string]ChartDef `json:"charts"`
	User   []Leaf              `json:"user"`
	Uset   []Leaf              `json:"uset"`
}

// CaseFile is one exported case (gen/<id>.json of the TLC run, also the replay format).
type CaseFile struct {
	ID    string          `json:"id"`
	Shape string          `json:"shape"`
	Case  json.RawMessage `json:"case"`
	Exp   json.RawMessage `json:"exp,omitempty"`
	// C11: also run the history route (real install, then upgrades that carry / reuse / reset the values)
	Hist bool `json:"hist,omitempty"`
	// C14 history route: which first revision(s): "skipinstall" | "laxinstall" | "" = both
	HistFirst string `json:"histfirst,omitempty"`
	// C14: also run the operations through pkg/cmd; CliFlag = the one extra flag tried alone on this case
	Cli     bool   `json:"cli,omitempty"`
	CliFlag string `json:"cliflag,omitempty"`
}

// ---- tokens <-> values --------------------------------------------------------------

func tokenValue(tok string) interface{} {
	switch {
	case tok == "true":
		return true
	case tok == "false":
		return false
	case tok == "{}":
		return map[string]interface{}{}
	case strings.HasPrefix(tok, "n:"):
		n, err := strconv.ParseInt(tok[2:], 10, 64)
		if err != nil {
			panic("bad token " + tok)
		}
		return n
	case strings.HasPrefix(tok, "s:"):
		return tok[2:]
	}
	panic("bad token " + tok)
}

// Tree builds the nested map of a set of leaves.
func Tree(ls []Leaf) map[string]interface{} {
	root := map[string]interface{}{}
	for _, l := range ls {
		cur := root
		for i, k := range l.P {
			if i == len(l.P)-1 {
				cur[k] = tokenValue(l.V)
				break
			}
			nx, ok := cur[k].(map[string]interface{})
			if !ok {
				nx = map[string]interface{}{}
				cur[k] = nx
			}
			cur = nx
		}
	}
	return root
}

func valueToken(v interface{}) string {
	switch x := v.(type) {
	case bool:
		if x {
			return "true"
		}
		return "false"
	case string:
		return "s:" + x
	case json.Number:
		return "n:" + x.String()
	case float64:
		if x == float64(int64(x)) {
			return "n:" + strconv.FormatInt(int64(x), 10)
		}
		return "n:" + strconv.FormatFloat(x, 'g', -1, 64)
	case int64:
		return "n:" + strconv.FormatInt(x, 10)
	case int:
		return "n:" + strconv.Itoa(x)
	case nil:
		return "null"
	default:
		b, _ := json.Marshal(x)
		return "j:" + string(b)
	}
}

// Flatten is the inverse of Tree for values observed from the real code.
func Flatten(v map[string]interface{}) []Leaf {
	out := []Leaf{}
	var rec func(prefix []string, m map[string]interface{})
	rec = func(prefix []string, m map[string]interface{}) {
		keys := make([]string, 0, len(m))
		for k := range m {
			keys = append(keys, k)
		}
		sort.Strings(keys)
		for _, k := range keys {
			p := append(append([]string{}, prefix...), k)
			if sub, ok := asMap(m[k]); ok {
				if len(sub) == 0 {
					out = append(out, Leaf{P: p, V: "{}"})
				} else {
					rec(p, sub)
				}
				continue
			}
			out = append(out, Leaf{P: p, V: valueToken(m[k])})
		}
	}
	rec(nil, v)
	return out
}

func asMap(v interface{}) (map[string]interface{}, bool) {
	switch x := v.(type) {
	case map[string]interface{}:
		return x, true
	}
	return nil, false
}

// ---- YAML / --set rendering of leaves ---------------------------------------------------

func yamlOf(v map[string]interface{}) string {
	if len(v) == 0 {
		return "{}\n"
	}
	b, err := json.Marshal(v) // JSON is YAML; keys are plain identifiers
	if err != nil {
		panic(err)
	}
	return string(b) + "\n"
}

// setArgs renders leaves as --set arguments (scalars only: `{}` cannot be written with --set).
func setArgs(ls []Leaf) ([]string, error) {
	out := []string{}
	for _, l := range ls {
		var v string
		switch {
		case l.V == "true" || l.V == "false":
			v = l.V
		case strings.HasPrefix(l.V, "n:"), strings.HasPrefix(l.V, "s:"):
			v = l.V[2:]
		default:
			return nil, fmt.Errorf("token %q cannot be given with --set", l.V)
		}
		out = append(out, strings.Join(l.P, ".")+"="+v)
	}
	return out, nil
}

// ---- the instance tree --------------------------------------------------------------------

// Instances lists every instance path of the tree ("" = root, "m1/g1", ...), with the chart
// definition each one instantiates.
func (c *Case) Instances() map[string]string {
	out := map[string]string{"": "root"}
	var rec func(prefix, ch string, depth int)
	rec = func(prefix, ch string, depth int) {
		if depth > 6 {
			return
		}
		for _, d := range c.Charts[ch].Deps {
			p := d.IName()
			if prefix != "" {
				p = prefix + "/" + d.IName()
			}
			out[p] = d.Name
			rec(p, d.Name, depth+1)
		}
	}
	rec("", "root", 0)
	return out
}

func splitInst(p string) []string {
	if p == "" {
		return []string{}
	}
	return strings.Split(p, "/")
}
