package deps

import (
	"bytes"
	"encoding/json"
	"fmt"
	"io"
	"net/http"
	"os"
	"path/filepath"
	"strings"
	"sync"
	"time"

	"github.com/santhosh-tekuri/jsonschema/v6"

	"helm.sh/helm/v4/pkg/action"
	chart "helm.sh/helm/v4/pkg/chart/v2"
	"helm.sh/helm/v4/pkg/chart/v2/loader"
	chartutil "helm.sh/helm/v4/pkg/chart/v2/util"
	"helm.sh/helm/v4/pkg/kube"
	rspb "helm.sh/helm/v4/pkg/release/v1"
	"helm.sh/helm/v4/pkg/storage"
	"helm.sh/helm/v4/pkg/storage/driver"

	"verif/harness/simcluster"
)

const (
	relName = "rel"
	relNS   = "default"
)

// ---- request log: every HTTP request the real client sends --------------------------------

type reqRec struct {
	Method string
	Path   string
	Status int
	Name   string // metadata.name of the object a POST creates
}

type reqLog struct {
	mu   sync.Mutex
	recs []reqRec
}

func (l *reqLog) add(r reqRec) {
	l.mu.Lock()
	l.recs = append(l.recs, r)
	l.mu.Unlock()
}

func (l *reqLog) from(i int) []reqRec {
	l.mu.Lock()
	defer l.mu.Unlock()
	return append([]reqRec{}, l.recs[i:]...)
}

func (l *reqLog) len() int {
	l.mu.Lock()
	defer l.mu.Unlock()
	return len(l.recs)
}

// logRT records every request before handing it to the simulated API server, and answers the
// one discovery document the template function `lookup` needs.
type logRT struct {
	inner http.RoundTripper
	log   *reqLog
}

const coreV1Discovery = `{"kind":"APIResourceList","apiVersion":"v1","groupVersion":"v1","resources":[` +
	`{"name":"configmaps","singularName":"configmap","namespaced":true,"kind":"ConfigMap","verbs":["create","delete","get","list","patch","update"]}]}`

// the discovery documents the real client asks for (lookup: /api/v1; cache invalidation after CRDs: /api, /apis)
var discoveryDocs = map[string]string{
	"/api/v1": coreV1Discovery,
	"/api":    `{"kind":"APIVersions","versions":["v1"],"serverAddressByClientCIDRs":[]}`,
	"/apis":   `{"kind":"APIGroupList","apiVersion":"v1","groups":[]}`,
}

func (t *logRT) RoundTrip(req *http.Request) (*http.Response, error) {
	if doc, ok := discoveryDocs[req.URL.Path]; ok && req.Method == http.MethodGet {
		t.log.add(reqRec{req.Method, req.URL.Path, 200, ""})
		return &http.Response{StatusCode: 200, Status: "200 OK", Proto: "HTTP/1.1", ProtoMajor: 1, ProtoMinor: 1,
			Header: http.Header{"Content-Type": []string{"application/json"}},
			Body:   io.NopCloser(strings.NewReader(doc)), ContentLength: int64(len(doc)), Request: req}, nil
	}
	name := ""
	if req.Method == http.MethodPost && req.Body != nil {
		body, _ := io.ReadAll(req.Body)
		req.Body.Close()
		req.Body = io.NopCloser(bytes.NewReader(body))
		var o struct {
			Metadata struct {
				Name string `json:"name"`
			} `json:"metadata"`
		}
		if json.Unmarshal(body, &o) == nil {
			name = o.Metadata.Name
		}
	}
	resp, err := t.inner.RoundTrip(req)
	st := 0
	if resp != nil {
		st = resp.StatusCode
	}
	t.log.add(reqRec{req.Method, req.URL.Path, st, name})
	return resp, err
}

// ---- storage call log -------------------------------------------------------------------------

type countDriver struct {
	D      driver.Driver
	mu     sync.Mutex
	writes []string
	reads  int
}

func (c *countDriver) w(s string) { c.mu.Lock(); c.writes = append(c.writes, s); c.mu.Unlock() }
func (c *countDriver) r()         { c.mu.Lock(); c.reads++; c.mu.Unlock() }
func (c *countDriver) nw() int    { c.mu.Lock(); defer c.mu.Unlock(); return len(c.writes) }

func (c *countDriver) Name() string { return c.D.Name() }
func (c *countDriver) Create(k string, r *rspb.Release) error {
	c.w("create " + k)
	return c.D.Create(k, r)
}
func (c *countDriver) Update(k string, r *rspb.Release) error {
	c.w("update " + k)
	return c.D.Update(k, r)
}
func (c *countDriver) Delete(k string) (*rspb.Release, error) {
	c.w("delete " + k)
	return c.D.Delete(k)
}
func (c *countDriver) Get(k string) (*rspb.Release, error) { c.r(); return c.D.Get(k) }
func (c *countDriver) List(f func(*rspb.Release) bool) ([]*rspb.Release, error) {
	c.r()
	return c.D.List(f)
}
func (c *countDriver) Query(l map[string]string) ([]*rspb.Release, error) { c.r(); return c.D.Query(l) }

// ---- kube client: the real one, readiness scripted ----------------------------------------------

type okClient struct{ *kube.Client }

func (c *okClient) GetWaiter(_ kube.WaitStrategy) (kube.Waiter, error) { return okWaiter{}, nil }

type okWaiter struct{}

func (okWaiter) Wait(kube.ResourceList, time.Duration) error            { return nil }
func (okWaiter) WaitWithJobs(kube.ResourceList, time.Duration) error    { return nil }
func (okWaiter) WaitForDelete(kube.ResourceList, time.Duration) error   { return nil }
func (okWaiter) WatchUntilReady(kube.ResourceList, time.Duration) error { return nil }

// env is one simulated cluster with one release store (Secrets in that cluster).
type env struct {
	sim   *simcluster.Sim
	log   *reqLog
	store *countDriver
}

func newEnv() *env {
	e := &env{sim: simcluster.New(), log: &reqLog{}}
	e.sim.Put(simcluster.Key{Group: "", Version: "v1", Resource: "namespaces", Name: relNS}, map[string]interface{}{"metadata": map[string]interface{}{}})
	return e
}

func (e *env) config() *action.Configuration {
	f := &simcluster.Factory{RT: &logRT{inner: e.sim.Transport(1), log: e.log}, Namespace: relNS}
	cs, _ := f.KubernetesClientSet()
	if e.store == nil {
		e.store = &countDriver{}
	}
	e.store.D = driver.NewSecrets(cs.CoreV1().Secrets(relNS))
	return &action.Configuration{
		RESTClientGetter: &simcluster.Getter{F: f},
		Releases:         storage.Init(e.store),
		KubeClient:       &okClient{&kube.Client{Factory: f, Namespace: relNS}},
		Capabilities:     chartutil.DefaultCapabilities.Copy(),
		HookOutputFunc:   func(_, _, _ string) io.Writer { return io.Discard },
	}
}

// ---- observations ---------------------------------------------------------------------------------

// OpObs is what one operation on one case did.
type OpObs struct {
	Mode        string   `json:"mode"`  // install | dryrun | template | upgrade | upgradedry | lint, or cli-<command> (through pkg/cmd)
	Base        string   `json:"base"`  // the action the operation dispatches to (one of the six above): decides the expected order of effects
	Flags       string   `json:"flags"` // command-line flags given besides the values (cli-* only)
	Skip        bool     `json:"skip"`  // skip-schema-validation was requested
	Ok          bool     `json:"ok"`
	SchemaErr   bool     `json:"schemaErr"` // it failed with a schema rejection
	Named       []string `json:"named"`     // chart names the rejection lists
	Writes      int      `json:"writes"`    // POST/PUT/PATCH/DELETE requests that reached the API server
	CrdWrites   int      `json:"crdWrites"` // ... of which POSTs of CustomResourceDefinitions
	StoreWrites int      `json:"storeWrites"`
	Renders     int      `json:"renders"` // GETs caused by the `lookup` of the root probe template
	Requests    int      `json:"requests"`
	Err         string   `json:"err"`
	First       string   `json:"first"` // the first write request, for the report
	// history route (hist-*): the values in force for this operation are not the request's but what the release
	// history carries; they are observed from a twin of the operation (same flags, dry run, gate switched off)
	Own     bool         `json:"own"`     // the four fields below describe the values in force of THIS operation
	TwinOk  bool         `json:"twinOk"`  // the twin ran
	Enabled [][]string   `json:"enabled"` // instances left after ProcessDependencies
	Finals  []Seen       `json:"finals"`  // their final values
	Lib     []LibVerdict `json:"lib"`     // the schema library's verdict on them
	Odd     int          `json:"odd"`
}

type LibVerdict struct {
	P     []string `json:"P"`
	Valid bool     `json:"valid"`
	Msg   string   `json:"msg"`
}

// Obs14 is one observation line for SchemaObs.tla.
type Obs14 struct {
	ID      string          `json:"id"`
	Shape   string          `json:"shape"`
	Case    json.RawMessage `json:"case"`
	PrepOk  bool            `json:"prepOk"`
	PrepErr string          `json:"prepErr"`
	Enabled [][]string      `json:"enabled"` // instances left after ProcessDependencies
	Finals  []Seen          `json:"finals"`  // their final (coalesced) values
	Lib     []LibVerdict    `json:"lib"`     // the schema library's verdict on (schema, final values) of each instance with a schema
	Odd     int             `json:"odd"`     // value tokens outside the family of Schema.tla
	Ops     []OpObs         `json:"ops"`
}

func libValidate(schema []byte, v map[string]interface{}) (bool, string) {
	doc, err := jsonschema.UnmarshalJSON(bytes.NewReader(schema))
	if err != nil {
		return false, "unmarshal: " + err.Error()
	}
	c := jsonschema.NewCompiler()
	if err := c.AddResource("file:///values.schema.json", doc); err != nil {
		return false, "add: " + err.Error()
	}
	s, err := c.Compile("file:///values.schema.json")
	if err != nil {
		return false, "compile: " + err.Error()
	}
	if err := s.Validate(v); err != nil {
		return false, err.Error()
	}
	return true, ""
}

func oddTokens(ls []Leaf) int {
	n := 0
	for _, l := range ls {
		switch {
		case l.V == "true", l.V == "false", l.V == "{}", strings.HasPrefix(l.V, "s:"):
		case l.V == "n:0", l.V == "n:1", l.V == "n:2", l.V == "n:3":
		case l.V == "n:9007199254740992", l.V == "n:9007199254740993": // 2^53, 2^53+1 (spec/Schema.tla Big, Big1)
		default:
			n++
		}
	}
	return n
}

func walkEnabled(ch *chart.Chart, prefix string, vals map[string]interface{}, visit func(inst string, c *chart.Chart, v map[string]interface{})) {
	visit(prefix, ch, vals)
	for _, d := range ch.Dependencies() {
		p := d.Name()
		if prefix != "" {
			p = prefix + "/" + d.Name()
		}
		sub, _ := asMap(vals[d.Name()])
		if sub == nil {
			sub = map[string]interface{}{}
		}
		walkEnabled(d, p, sub, visit)
	}
}

func isWrite(m string) bool {
	return m == "POST" || m == "PUT" || m == "PATCH" || m == "DELETE"
}

func (o *OpObs) fillLog(recs []reqRec, storeWrites int) {
	o.Requests = len(recs)
	for _, r := range recs {
		if isWrite(r.Method) {
			o.Writes++
			if o.First == "" {
				o.First = r.Method + " " + r.Path
			}
			if r.Method == "POST" && strings.Contains(r.Path, "customresourcedefinitions") {
				o.CrdWrites++
			}
		}
		if r.Method == "GET" && strings.HasSuffix(r.Path, "/configmaps/render-probe") {
			o.Renders++
		}
	}
	o.StoreWrites = storeWrites
}

func (o *OpObs) fillErr(c *Case, err error) {
	if err == nil {
		o.Ok = true
		return
	}
	o.Err = err.Error()
	if strings.Contains(o.Err, schemaErrPrefix) {
		o.SchemaErr = true
		o.Named = namedCharts(c, o.Err)
	}
}

var baseFiles = []*loader.BufferedFile{
	{Name: "Chart.yaml", Data: []byte("apiVersion: v2\nname: root\nversion: 0.0.1\n")},
	{Name: "values.yaml", Data: []byte("{}\n")},
	{Name: "templates/base.yaml", Data: []byte("apiVersion: v1\nkind: ConfigMap\nmetadata:\n  name: base\ndata:\n  k: v\n")},
}

func newInstall(cfg *action.Configuration, skip bool) *action.Install {
	in := action.NewInstall(cfg)
	in.ReleaseName, in.Namespace = relName, relNS
	in.Timeout = 5 * time.Second
	in.SkipSchemaValidation = skip
	return in
}

// isSchemaComplaint recognises a schema rejection in an error text (the gate's own message, the lint values rule's
// bare validation errors, or any other wording that speaks of a schema).
func isSchemaComplaint(msg string) bool {
	return strings.Contains(msg, schemaErrPrefix) || strings.Contains(msg, "- at '") || strings.Contains(strings.ToLower(msg), "schema")
}

// lintOp runs helm lint on the chart tree written under dir.
func lintOp(c *Case, dir string, skip bool, vals map[string]interface{}) (o OpObs) {
	o = OpObs{Mode: "lint", Skip: skip, Named: []string{}}
	defer func() {
		if r := recover(); r != nil {
			o.Ok = false
			o.Err = fmt.Sprintf("PANIC: %v", r)
		}
	}()
	l := action.NewLint()
	l.Namespace = relNS
	l.SkipSchemaValidation = skip
	res := l.Run([]string{dir}, vals)
	msgs := []string{}
	for _, m := range res.Messages {
		if m.Severity >= 3 { // support.ErrorSev
			txt := m.Path + ": " + m.Err.Error()
			msgs = append(msgs, txt)
			if isSchemaComplaint(m.Err.Error()) {
				// whichever lint rule speaks: a complaint about values not meeting a schema is the schema step rejecting
				o.SchemaErr = true
				o.Named = append(o.Named, namedCharts(c, m.Err.Error())...)
			}
		}
	}
	o.Ok = len(res.Errors) == 0
	o.Err = strings.Join(msgs, " || ")
	return o
}

// clusterOps runs a dry run and then the real operation in ONE fresh simulated cluster (a dry run leaves
// nothing behind): kind = "install" gives (dryrun, install), kind = "upgrade" gives (upgradedry, upgrade)
// after a baseline install of a trivial chart.
func clusterOps(c *Case, kind string, skip bool, vals func() map[string]interface{}) []OpObs {
	names := []string{"dryrun", "install"}
	if kind == "upgrade" {
		names = []string{"upgradedry", "upgrade"}
	}
	out := []OpObs{}
	e := newEnv()
	based := ""
	if kind == "upgrade" {
		base, berr := loader.LoadFiles(baseFiles)
		if berr == nil {
			_, berr = newInstall(e.config(), false).Run(base, map[string]interface{}{})
		}
		if berr != nil {
			based = "baseline install: " + berr.Error()
		}
	}
	for i, mode := range names {
		o := OpObs{Mode: mode, Skip: skip, Named: []string{}}
		func() {
			defer func() {
				if r := recover(); r != nil {
					o.Ok = false
					o.Err = fmt.Sprintf("PANIC: %v", r)
				}
			}()
			if based != "" {
				o.Err = based
				return
			}
			ch, err := c.Load(BuildOpts{Lookup: true})
			if err != nil {
				o.Err = "load: " + err.Error()
				return
			}
			mark, smark := e.log.len(), 0
			if e.store != nil {
				smark = e.store.nw()
			}
			if kind == "install" {
				in := newInstall(e.config(), skip)
				if i == 0 {
					in.DryRun = true
					in.DryRunOption = "server"
				}
				_, err = in.Run(ch, vals())
			} else {
				up := action.NewUpgrade(e.config())
				up.Namespace = relNS
				up.Timeout = 5 * time.Second
				up.SkipSchemaValidation = skip
				if i == 0 {
					up.DryRun = true
					up.DryRunOption = "server"
				}
				_, err = up.Run(relName, ch, vals())
			}
			o.fillErr(c, err)
			o.fillLog(e.log.from(mark), e.store.nw()-smark)
		}()
		out = append(out, o)
	}
	return out
}

func templateOp(c *Case, skip bool, vals map[string]interface{}) (o OpObs) {
	o = OpObs{Mode: "template", Skip: skip, Named: []string{}}
	defer func() {
		if r := recover(); r != nil {
			o.Ok = false
			o.Err = fmt.Sprintf("PANIC: %v", r)
		}
	}()
	ch, err := c.Load(BuildOpts{Lookup: true})
	if err != nil {
		o.Err = "load: " + err.Error()
		return o
	}
	in := templateInstall()
	in.SkipSchemaValidation = skip
	_, err = in.Run(ch, vals)
	o.fillErr(c, err)
	return o
}

// observeFinals walks the enabled instances of a processed chart with their final values and asks the schema library.
func observeFinals(c *Case, ch *chart.Chart, top map[string]interface{}) (enabled [][]string, finals []Seen, lib []LibVerdict, odd int) {
	enabled, finals, lib = [][]string{}, []Seen{}, []LibVerdict{}
	insts := c.Instances()
	walkEnabled(ch, "", top, func(inst string, _ *chart.Chart, v map[string]interface{}) {
		ls := Flatten(v)
		enabled = append(enabled, splitInst(inst))
		finals = append(finals, Seen{P: splitInst(inst), Leaves: ls})
		odd += oddTokens(ls)
		if def, ok := c.Charts[insts[inst]]; ok && len(def.Schema) > 0 {
			valid, msg := libValidate(SchemaJSON(def.Schema), v)
			lib = append(lib, LibVerdict{P: splitInst(inst), Valid: valid, Msg: msg})
		}
	})
	return
}

// histOps: the history route.  A release is first made with values that were never judged by the case's schemas -
// "skipinstall": install of the case's chart with skip-schema-validation; "laxinstall": install of the same chart,
// same version, without its values.schema.json files - and then upgraded with the case's chart and NO new values in
// the default / reuse-values / reset-then-reuse-values / reset-values modes.  The gate must judge the values in force
// for the new revision, whatever their origin.
func histOps(c *Case, tmp, only string) []OpObs {
	out := []OpObs{}
	lax := &Case{Charts: map[string]ChartDef{}, User: c.User, Uset: c.Uset}
	for n, d := range c.Charts {
		d.Schema = nil
		lax.Charts[n] = d
	}
	type mode struct {
		name           string
		reuse, rtr, rs bool
	}
	modes := []mode{{"upgrade", false, false, false}, {"upgrade-reuse", true, false, false},
		{"upgrade-reset-then-reuse", false, true, false}, {"upgrade-reset", false, false, true}} // the reset comes last
	// the values in force do not depend on how the first revision came about (same chart version, same stored
	// values): the twin of a mode is run once and shared
	type twin struct {
		ok      bool
		err     string
		enabled [][]string
		finals  []Seen
		lib     []LibVerdict
		odd     int
	}
	twins := map[string]*twin{}
	for _, first := range []string{"skipinstall", "laxinstall"} {
		if only != "" && only != first {
			continue
		}
		e := newEnv()
		prep := ""
		func() {
			defer catch(&prep)
			vals, err := c.UserValues(tmp)
			if err != nil {
				prep = "values: " + err.Error()
				return
			}
			src := c
			if first == "laxinstall" {
				src = lax
			}
			ch, err := src.Load(BuildOpts{Lookup: true})
			if err != nil {
				prep = "load: " + err.Error()
				return
			}
			if _, err := newInstall(e.config(), first == "skipinstall").Run(ch, vals); err != nil {
				prep = "first install: " + err.Error()
			}
		}()
		for _, m := range modes {
			o := OpObs{Mode: "hist-" + first + "-" + m.name, Base: "upgrade", Named: []string{}, Own: true,
				Enabled: [][]string{}, Finals: []Seen{}, Lib: []LibVerdict{}}
			func() {
				defer catch(&o.Err)
				if prep != "" {
					o.Err = prep
					return
				}
				newUp := func() *action.Upgrade {
					up := action.NewUpgrade(e.config())
					up.Namespace = relNS
					up.Timeout = 5 * time.Second
					up.ReuseValues, up.ResetThenReuseValues, up.ResetValues = m.reuse, m.rtr, m.rs
					return up
				}
				// the twin: same operation as a dry run with the gate switched off shows the values in force
				t := twins[m.name]
				if t == nil {
					t = &twin{}
					twins[m.name] = t
					func() {
						defer catch(&t.err)
						tch, err := c.Load(BuildOpts{Lookup: true})
						if err != nil {
							t.err = "load: " + err.Error()
							return
						}
						tw := newUp()
						tw.DryRun, tw.DryRunOption, tw.SkipSchemaValidation = true, "client", true
						trel, err := tw.Run(relName, tch, map[string]interface{}{})
						if err != nil {
							t.err = "twin: " + err.Error()
							return
						}
						top, err := chartutil.CoalesceValues(trel.Chart, trel.Config)
						if err != nil {
							t.err = "twin values: " + err.Error()
							return
						}
						t.enabled, t.finals, t.lib, t.odd = observeFinals(c, trel.Chart, top)
						t.ok = true
					}()
				}
				if !t.ok {
					o.Err = t.err
					return
				}
				o.Enabled, o.Finals, o.Lib, o.Odd, o.TwinOk = t.enabled, t.finals, t.lib, t.odd, true
				// the operation under test
				ch, err := c.Load(BuildOpts{Lookup: true})
				if err != nil {
					o.Err = "load: " + err.Error()
					return
				}
				mark, smark := e.log.len(), e.store.nw()
				_, err = newUp().Run(relName, ch, map[string]interface{}{})
				o.fillErr(c, err)
				o.fillLog(e.log.from(mark), e.store.nw()-smark)
			}()
			out = append(out, o)
		}
	}
	return out
}

// Run14 runs one C14 case on the real code.
func Run14(cf CaseFile, tmp string) Obs14 {
	o := Obs14{ID: cf.ID, Shape: cf.Shape, Case: cf.Case, Enabled: [][]string{}, Finals: []Seen{}, Lib: []LibVerdict{}, Ops: []OpObs{}}
	var c Case
	if err := json.Unmarshal(cf.Case, &c); err != nil {
		o.PrepErr = "bad case: " + err.Error()
		return o
	}
	func() {
		defer catch(&o.PrepErr)
		vals, err := c.UserValues(tmp)
		if err != nil {
			o.PrepErr = "values: " + err.Error()
			return
		}
		ch, err := c.Load(BuildOpts{})
		if err != nil {
			o.PrepErr = "load: " + err.Error()
			return
		}
		if err := chartutil.ProcessDependencies(ch, vals); err != nil {
			o.PrepErr = "ProcessDependencies: " + err.Error()
			return
		}
		// the final values, with the gate switched off
		rv, err := chartutil.ToRenderValuesWithSchemaValidation(ch, vals, chartutil.ReleaseOptions{Name: relName, Namespace: relNS, Revision: 1, IsInstall: true}, nil, true)
		if err != nil {
			o.PrepErr = "ToRenderValues: " + err.Error()
			return
		}
		top, _ := asMap(map[string]interface{}(rv["Values"].(chartutil.Values)))
		o.Enabled, o.Finals, o.Lib, o.Odd = observeFinals(&c, ch, top)
		o.PrepOk = true
	}()
	vals := func() map[string]interface{} { // a fresh copy for every operation
		v, err := c.UserValues(tmp)
		if err != nil {
			panic("values: " + err.Error())
		}
		return v
	}
	allValid := true
	for _, v := range o.Lib {
		allValid = allValid && v.Valid
	}
	lintDir, lerr := c.WriteDir(filepath.Join(tmp, "lint"), BuildOpts{Lookup: true})
	defer os.RemoveAll(filepath.Join(tmp, "lint"))
	for _, skip := range []bool{false, true} {
		o.Ops = append(o.Ops, templateOp(&c, skip, vals()))
		if skip && allValid {
			// nothing for the option to skip: the cluster operations and lint add no information
			continue
		}
		o.Ops = append(o.Ops, clusterOps(&c, "install", skip, vals)...)
		o.Ops = append(o.Ops, clusterOps(&c, "upgrade", skip, vals)...)
		if lerr != nil {
			o.Ops = append(o.Ops, OpObs{Mode: "lint", Skip: skip, Named: []string{}, Err: "writedir: " + lerr.Error()})
		} else {
			o.Ops = append(o.Ops, lintOp(&c, lintDir, skip, vals()))
		}
	}
	if cf.Cli && lerr == nil {
		// the same operations through the command line (flag parsing and wiring of pkg/cmd)
		o.Ops = append(o.Ops, cliOps(&c, lintDir, tmp, allValid, cf.CliFlag)...)
	}
	if cf.Hist {
		o.Ops = append(o.Ops, histOps(&c, tmp, cf.HistFirst)...)
	}
	for i := range o.Ops {
		if o.Ops[i].Enabled == nil {
			o.Ops[i].Enabled, o.Ops[i].Finals, o.Ops[i].Lib = [][]string{}, []Seen{}, []LibVerdict{}
		}
		if o.Ops[i].Base == "" {
			o.Ops[i].Base = o.Ops[i].Mode
		}
	}
	return o
}
