package deps

// Obs14 placeholder (filled in below)
type Obs14 struct{ ID string `json:"id"` }

func Run14(cf CaseFile, tmp string) Obs14 { return Obs14{ID: cf.ID} }
