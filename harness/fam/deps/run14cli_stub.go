//go:build !verif

package deps

// without the verif build tag helm does not export its root command: no command-line runs
func cliOps(_ *Case, _, _ string, _ bool, _ string) []OpObs { return nil }
