package deps

import (
	"encoding/json"
	"fmt"
	"os"
	"path/filepath"
	"sort"
	"strconv"
	"strings"

	chart "helm.sh/helm/v4/pkg/chart/v2"
	"helm.sh/helm/v4/pkg/chart/v2/loader"
)

const probeTpl = `%sapiVersion: v1
kind: ConfigMap
metadata:
  name: {{ .Template.BasePath | replace "/" "-" | lower }}
data:
  probe: {{ toJson .Values | quote }}
`

const lookupLine = `{{- $seen := lookup "v1" "ConfigMap" .Release.Namespace "render-probe" }}
`

const hookTpl = `apiVersion: v1
kind: ConfigMap
metadata:
  name: hook-{{ .Template.BasePath | replace "/" "-" | lower }}
  annotations:
    "helm.sh/hook": pre-install,pre-upgrade
    "helm.sh/hook-delete-policy": before-hook-creation
data:
  hook: "1"
`

// a second hook for the events after the resources have been applied
const postHookTpl = `apiVersion: v1
kind: ConfigMap
metadata:
  name: posthook-{{ .Template.BasePath | replace "/" "-" | lower }}
  annotations:
    "helm.sh/hook": post-install,post-upgrade
    "helm.sh/hook-delete-policy": before-hook-creation
data:
  hook: "2"
`

const notesTpl = `NOTES {{ .Template.BasePath }}
`

const crdTpl = `apiVersion: apiextensions.k8s.io/v1
kind: CustomResourceDefinition
metadata:
  name: %[1]s.verif.example
spec:
  group: verif.example
  scope: Namespaced
  names:
    kind: %[2]s
    plural: %[1]s
    singular: %[1]s
  versions:
    - name: v1
      served: true
      storage: true
      schema:
        openAPIV3Schema:
          type: object
          x-kubernetes-preserve-unknown-fields: true
`

// SchemaJSON renders the constraint list as a JSON-schema document.
func SchemaJSON(cs []Constraint) []byte {
	root := map[string]interface{}{}
	node := func(p []string) map[string]interface{} {
		cur := root
		for _, k := range p {
			props, ok := cur["properties"].(map[string]interface{})
			if !ok {
				props = map[string]interface{}{}
				cur["properties"] = props
			}
			nx, ok := props[k].(map[string]interface{})
			if !ok {
				nx = map[string]interface{}{}
				props[k] = nx
			}
			cur = nx
		}
		return cur
	}
	for _, c := range cs {
		n := node(c.P)
		switch c.K {
		case "type":
			n["type"] = c.A[0]
		case "required":
			n["required"] = c.A
		case "enum":
			vs := []interface{}{}
			for _, t := range c.A {
				vs = append(vs, tokenValue(t))
			}
			n["enum"] = vs
		case "minimum", "maximum":
			n[c.K] = tokenValue(c.A[0])
		case "closed":
			n["additionalProperties"] = false
			for _, name := range c.A {
				node(append(append([]string{}, c.P...), name))
			}
			if _, ok := n["properties"]; !ok {
				n["properties"] = map[string]interface{}{}
			}
		default:
			panic("unknown constraint kind " + c.K)
		}
	}
	b, _ := json.MarshalIndent(root, "", " ")
	return b
}

func chartYAML(name string, def ChartDef) string {
	var sb strings.Builder
	fmt.Fprintf(&sb, "apiVersion: v2\nname: %s\nversion: 0.1.0\ndescription: generated\ntype: application\n", name)
	if len(def.Deps) > 0 {
		sb.WriteString("dependencies:\n")
		for _, d := range def.Deps {
			fmt.Fprintf(&sb, "  - name: %s\n    version: 0.1.0\n    repository: \"\"\n", d.Name)
			if d.Alias != "" {
				fmt.Fprintf(&sb, "    alias: %s\n", d.Alias)
			}
			if len(d.Cond) > 0 {
				ps := []string{}
				for _, p := range d.Cond {
					ps = append(ps, strings.Join(p, "."))
				}
				fmt.Fprintf(&sb, "    condition: %s\n", strconv.Quote(strings.Join(ps, ",")))
			}
			if len(d.Tags) > 0 {
				sb.WriteString("    tags:\n")
				for _, t := range d.Tags {
					fmt.Fprintf(&sb, "      - %s\n", t)
				}
			}
		}
	}
	return sb.String()
}

// crdPlural("charts/mid/charts/leaf/") = "root-mid-leaf"
func crdPlural(prefix string) string {
	out := "root"
	parts := strings.Split(strings.Trim(prefix, "/"), "/")
	for i := 0; i+1 < len(parts); i += 2 {
		if parts[i] == "charts" {
			out += "-" + parts[i+1]
		}
	}
	return out
}

// instOfHookObject("hook-root-charts-mid-charts-leaf-templates") = ("mid/leaf", "hook")
func instOfHookObject(name string) (string, string, bool) {
	kind := ""
	switch {
	case strings.HasPrefix(name, "posthook-"):
		kind, name = "posthook", strings.TrimPrefix(name, "posthook-")
	case strings.HasPrefix(name, "hook-"):
		kind, name = "hook", strings.TrimPrefix(name, "hook-")
	default:
		return "", "", false
	}
	parts := strings.Split(name, "-")
	if len(parts) < 2 || parts[0] != "root" || parts[len(parts)-1] != "templates" {
		return "", "", false
	}
	inst := []string{}
	for i := 1; i+1 < len(parts)-1; i += 2 {
		if parts[i] != "charts" {
			return "", "", false
		}
		inst = append(inst, parts[i+1])
	}
	return strings.Join(inst, "/"), kind, true
}

// rawPathOfCRD("root-mid-leaf.verif.example") = ["mid","leaf"]
func rawPathOfCRD(name string) ([]string, bool) {
	if !strings.HasSuffix(name, ".verif.example") {
		return nil, false
	}
	parts := strings.Split(strings.TrimSuffix(name, ".verif.example"), "-")
	if len(parts) == 0 || parts[0] != "root" {
		return nil, false
	}
	return append([]string{}, parts[1:]...), true
}

// BuildOpts selects the extras of the generated charts.
type BuildOpts struct {
	Lookup bool // the root probe template calls `lookup` (a render leaves a GET in the request log)
}

// Files returns the files of the whole chart tree (root chart at the top, subcharts under charts/).
func (c *Case) Files(o BuildOpts) []*loader.BufferedFile {
	var out []*loader.BufferedFile
	add := func(name, data string) {
		out = append(out, &loader.BufferedFile{Name: name, Data: []byte(data)})
	}
	var rec func(prefix, name string, depth int)
	rec = func(prefix, name string, depth int) {
		def, ok := c.Charts[name]
		if !ok {
			panic("case refers to unknown chart " + name)
		}
		if depth > 6 {
			panic("dependency tree too deep")
		}
		add(prefix+"Chart.yaml", chartYAML(name, def))
		if len(def.Defaults) > 0 { // a chart without default values has no values.yaml
			add(prefix+"values.yaml", yamlOf(Tree(def.Defaults)))
		}
		if len(def.Schema) > 0 {
			add(prefix+"values.schema.json", string(SchemaJSON(def.Schema)))
		}
		pre := ""
		if o.Lookup && prefix == "" {
			pre = lookupLine
		}
		if !def.NoTpl {
			add(prefix+"templates/probe.yaml", fmt.Sprintf(probeTpl, pre))
			add(prefix+"templates/hook.yaml", hookTpl)
			add(prefix+"templates/posthook.yaml", postHookTpl)
			add(prefix+"templates/NOTES.txt", notesTpl)
		}
		if def.Crds {
			// the CRD is named after the chart DIRECTORY it ships in (root-mid-leaf.verif.example), so that a CRD
			// found in the cluster can be attributed to the chart object that contributed it
			add(prefix+"crds/crd.yaml", fmt.Sprintf(crdTpl, crdPlural(prefix), strings.ToUpper(name[:1])+name[1:]))
		}
		seen := map[string]bool{}
		for _, d := range def.Deps {
			if seen[d.Name] {
				continue
			}
			seen[d.Name] = true
			rec(prefix+"charts/"+d.Name+"/", d.Name, depth+1)
		}
	}
	rec("", "root", 0)
	return out
}

// Load builds a fresh chart object with the real loader (every run needs its own:
// ProcessDependencies rewrites the chart in place).
func (c *Case) Load(o BuildOpts) (*chart.Chart, error) {
	return loader.LoadFiles(c.Files(o))
}

// WriteDir writes the chart tree under dir/root (for lint, which loads from disk).
func (c *Case) WriteDir(dir string, o BuildOpts) (string, error) {
	top := filepath.Join(dir, "root")
	for _, f := range c.Files(o) {
		p := filepath.Join(top, filepath.FromSlash(f.Name))
		if err := os.MkdirAll(filepath.Dir(p), 0o755); err != nil {
			return "", err
		}
		if err := os.WriteFile(p, f.Data, 0o644); err != nil {
			return "", err
		}
	}
	return top, nil
}

// instOf maps a template / crd path of the rendered tree to (instance path, file kind).
// "root/charts/m1/charts/g1/templates/probe.yaml" -> ("m1/g1", "probe")
func instOf(path string) (string, string, bool) {
	parts := strings.Split(path, "/")
	if len(parts) < 2 || parts[0] != "root" {
		return "", "", false
	}
	inst := []string{}
	i := 1
	for i+1 < len(parts) && parts[i] == "charts" {
		inst = append(inst, parts[i+1])
		i += 2
	}
	rest := strings.Join(parts[i:], "/")
	kind := ""
	switch rest {
	case "templates/probe.yaml":
		kind = "probe"
	case "templates/hook.yaml":
		kind = "hook"
	case "templates/posthook.yaml":
		kind = "posthook"
	case "templates/NOTES.txt":
		kind = "notes"
	case "crds/crd.yaml":
		kind = "crd"
	case "templates":
		kind = "base"
	default:
		return "", "", false
	}
	return strings.Join(inst, "/"), kind, true
}

func sortedKeys(m map[string]bool) []string {
	out := make([]string, 0, len(m))
	for k := range m {
		out = append(out, k)
	}
	sort.Strings(out)
	return out
}

func instList(m map[string]bool) [][]string {
	out := [][]string{}
	for _, k := range sortedKeys(m) {
		out = append(out, splitInst(k))
	}
	return out
}
