// Package ready replays the cases of spec/Ready.tla on helm's real legacy readiness rules
// (pkg/kube/ready.go: ReadyChecker.IsReady): each case is built as typed objects in a client-go
// fake clientset (and, for CRDs, in the simulated API server the resource.Info reads from).
package ready

import (
	"bufio"
	"bytes"
	"context"
	"encoding/json"
	"fmt"
	"os"
	"strings"

	appsv1 "k8s.io/api/apps/v1"
	batchv1 "k8s.io/api/batch/v1"
	corev1 "k8s.io/api/core/v1"
	metav1 "k8s.io/apimachinery/pkg/apis/meta/v1"
	"k8s.io/apimachinery/pkg/runtime"
	"k8s.io/apimachinery/pkg/types"
	"k8s.io/apimachinery/pkg/util/intstr"
	"k8s.io/client-go/kubernetes/fake"

	"helm.sh/helm/v4/pkg/kube"

	"verif/harness/simcluster"
)

const ns = "ns1"

type IntStr struct {
	Pct bool `json:"pct"`
	N   int  `json:"n"`
}

type Cond struct {
	Type   string `json:"type"`
	Status string `json:"status"`
}

type Case struct {
	Kind string `json:"kind"`
	// Pod
	ReadyCond string `json:"readyCond"`
	// Job
	CheckJobs    bool `json:"checkJobs"`
	BackoffLimit int  `json:"backoffLimit"`
	Completions  int  `json:"completions"`
	Succeeded    int  `json:"succeeded"`
	Failed       int  `json:"failed"`
	// PVC
	Phase string `json:"phase"`
	// Service
	Type        string `json:"type"`
	ClusterIP   bool   `json:"clusterIP"`
	ExternalIPs bool   `json:"externalIPs"`
	Ingress     bool   `json:"ingress"`
	// Deployment / DaemonSet / StatefulSet / ReplicaSet / ReplicationController
	Paused        bool    `json:"paused"`
	PausedAsReady bool    `json:"pausedAsReady"`
	RsExists      bool    `json:"rsExists"`
	RsObserved    bool    `json:"rsObserved"`
	Observed      bool    `json:"observed"`
	Strategy      string  `json:"strategy"`
	Replicas      int     `json:"replicas"`
	MaxUnavail    *IntStr `json:"maxUnavail"`
	MaxSurge      int     `json:"maxSurge"`
	RsReady       int     `json:"rsReady"`
	Desired       int     `json:"desired"`
	Updated       int     `json:"updated"`
	Ready         int     `json:"ready"`
	Partition     int     `json:"partition"`
	SameRevision  bool    `json:"sameRevision"`
	Pods          []bool  `json:"pods"`
	// CRD
	Conds []Cond `json:"conds"`
}

type Line struct {
	Case json.RawMessage `json:"case"`
	Want string          `json:"want"`
}

type Obs struct {
	Case    json.RawMessage `json:"case"`
	Got     string          `json:"got"` // ready | notready | error
	Err     string          `json:"err"`
	Harness string          `json:"harness"`
}

func i32(n int) *int32 { v := int32(n); return &v }

func toIntOrStr(v *IntStr) *intstr.IntOrString {
	if v == nil {
		x := intstr.FromInt32(0)
		return &x
	}
	if v.Pct {
		x := intstr.FromString(fmt.Sprintf("%d%%", v.N))
		return &x
	}
	x := intstr.FromInt32(int32(v.N))
	return &x
}

func gen(observed bool) (int64, int64) {
	if observed {
		return 2, 2
	}
	return 2, 1
}

var podLabels = map[string]string{"app": "x"}

func podTemplate() corev1.PodTemplateSpec {
	return corev1.PodTemplateSpec{
		ObjectMeta: metav1.ObjectMeta{Labels: podLabels},
		Spec:       corev1.PodSpec{Containers: []corev1.Container{{Name: "c", Image: "busybox"}}},
	}
}

func pod(name string, ready string) *corev1.Pod {
	p := &corev1.Pod{TypeMeta: metav1.TypeMeta{APIVersion: "v1", Kind: "Pod"},
		ObjectMeta: metav1.ObjectMeta{Name: name, Namespace: ns, Labels: podLabels},
		Spec:       corev1.PodSpec{Containers: []corev1.Container{{Name: "c", Image: "busybox"}}}}
	switch ready {
	case "True":
		p.Status.Conditions = []corev1.PodCondition{{Type: corev1.PodScheduled, Status: corev1.ConditionTrue}, {Type: corev1.PodReady, Status: corev1.ConditionTrue}}
	case "False":
		p.Status.Conditions = []corev1.PodCondition{{Type: corev1.PodReady, Status: corev1.ConditionFalse}}
	}
	return p
}

// build returns the object helm holds (as YAML-able typed object, status-free is not required: IsReady re-reads),
// the live objects for the fake clientset, and (CRDs) the live object for the simulated API server.
func build(c Case) (main runtime.Object, live []runtime.Object, err error) {
	om := metav1.ObjectMeta{Name: "o1", Namespace: ns}
	switch c.Kind {
	case "Pod":
		p := pod("o1", c.ReadyCond)
		return p, []runtime.Object{p}, nil
	case "Job":
		j := &batchv1.Job{TypeMeta: metav1.TypeMeta{APIVersion: "batch/v1", Kind: "Job"}, ObjectMeta: om}
		j.Spec.BackoffLimit = i32(c.BackoffLimit)
		if c.Completions >= 0 {
			j.Spec.Completions = i32(c.Completions)
		}
		j.Spec.Template = podTemplate()
		j.Spec.Template.Spec.RestartPolicy = corev1.RestartPolicyNever
		j.Status.Succeeded, j.Status.Failed = int32(c.Succeeded), int32(c.Failed)
		return j, []runtime.Object{j}, nil
	case "PersistentVolumeClaim":
		v := &corev1.PersistentVolumeClaim{TypeMeta: metav1.TypeMeta{APIVersion: "v1", Kind: "PersistentVolumeClaim"}, ObjectMeta: om}
		v.Status.Phase = corev1.PersistentVolumeClaimPhase(c.Phase)
		return v, []runtime.Object{v}, nil
	case "Service":
		s := &corev1.Service{TypeMeta: metav1.TypeMeta{APIVersion: "v1", Kind: "Service"}, ObjectMeta: om}
		s.Spec.Type = corev1.ServiceType(c.Type)
		s.Spec.Ports = []corev1.ServicePort{{Port: 80}}
		if c.Type == "ExternalName" {
			s.Spec.ExternalName = "example.org"
		}
		if c.ClusterIP {
			s.Spec.ClusterIP = "10.0.0.1"
		}
		if c.ExternalIPs {
			s.Spec.ExternalIPs = []string{"192.0.2.1"}
		}
		if c.Ingress {
			s.Status.LoadBalancer.Ingress = []corev1.LoadBalancerIngress{{IP: "192.0.2.9"}}
		}
		return s, []runtime.Object{s}, nil
	case "Deployment":
		d := &appsv1.Deployment{TypeMeta: metav1.TypeMeta{APIVersion: "apps/v1", Kind: "Deployment"}, ObjectMeta: om}
		d.UID = types.UID("dep-uid")
		d.Generation, d.Status.ObservedGeneration = gen(c.Observed)
		d.Spec.Paused = c.Paused
		d.Spec.Replicas = i32(c.Replicas)
		d.Spec.Selector = &metav1.LabelSelector{MatchLabels: podLabels}
		d.Spec.Template = podTemplate()
		d.Spec.Strategy.Type = appsv1.DeploymentStrategyType(c.Strategy)
		if c.Strategy == "RollingUpdate" {
			su := intstr.FromInt32(int32(c.MaxSurge))
			d.Spec.Strategy.RollingUpdate = &appsv1.RollingUpdateDeployment{MaxUnavailable: toIntOrStr(c.MaxUnavail), MaxSurge: &su}
		}
		live = []runtime.Object{d}
		if c.RsExists {
			rs := &appsv1.ReplicaSet{TypeMeta: metav1.TypeMeta{APIVersion: "apps/v1", Kind: "ReplicaSet"},
				ObjectMeta: metav1.ObjectMeta{Name: "o1-rs", Namespace: ns, Labels: podLabels}}
			ctrl := true
			rs.OwnerReferences = []metav1.OwnerReference{{APIVersion: "apps/v1", Kind: "Deployment", Name: "o1", UID: d.UID, Controller: &ctrl}}
			rs.Generation, rs.Status.ObservedGeneration = gen(c.RsObserved)
			rs.Spec.Replicas = i32(c.Replicas)
			rs.Spec.Selector = &metav1.LabelSelector{MatchLabels: podLabels}
			rs.Spec.Template = podTemplate()
			rs.Status.ReadyReplicas = int32(c.RsReady)
			live = append(live, rs)
		}
		return d, live, nil
	case "DaemonSet":
		d := &appsv1.DaemonSet{TypeMeta: metav1.TypeMeta{APIVersion: "apps/v1", Kind: "DaemonSet"}, ObjectMeta: om}
		d.Generation, d.Status.ObservedGeneration = gen(c.Observed)
		d.Spec.Selector = &metav1.LabelSelector{MatchLabels: podLabels}
		d.Spec.Template = podTemplate()
		d.Spec.UpdateStrategy.Type = appsv1.DaemonSetUpdateStrategyType(c.Strategy)
		d.Spec.UpdateStrategy.RollingUpdate = &appsv1.RollingUpdateDaemonSet{MaxUnavailable: toIntOrStr(c.MaxUnavail)}
		d.Status.DesiredNumberScheduled, d.Status.UpdatedNumberScheduled, d.Status.NumberReady = int32(c.Desired), int32(c.Updated), int32(c.Ready)
		return d, []runtime.Object{d}, nil
	case "StatefulSet":
		s := &appsv1.StatefulSet{TypeMeta: metav1.TypeMeta{APIVersion: "apps/v1", Kind: "StatefulSet"}, ObjectMeta: om}
		s.Generation, s.Status.ObservedGeneration = gen(c.Observed)
		s.Spec.Selector = &metav1.LabelSelector{MatchLabels: podLabels}
		s.Spec.Template = podTemplate()
		s.Spec.ServiceName = "svc"
		s.Spec.UpdateStrategy.Type = appsv1.StatefulSetUpdateStrategyType(c.Strategy)
		if c.Partition >= 0 {
			s.Spec.UpdateStrategy.RollingUpdate = &appsv1.RollingUpdateStatefulSetStrategy{Partition: i32(c.Partition)}
		}
		if c.Replicas >= 0 {
			s.Spec.Replicas = i32(c.Replicas)
		}
		s.Status.UpdatedReplicas, s.Status.ReadyReplicas = int32(c.Updated), int32(c.Ready)
		s.Status.CurrentRevision, s.Status.UpdateRevision = "rev-a", "rev-a"
		if !c.SameRevision {
			s.Status.UpdateRevision = "rev-b"
		}
		return s, []runtime.Object{s}, nil
	case "ReplicaSet", "ReplicationController":
		var m runtime.Object
		if c.Kind == "ReplicaSet" {
			rs := &appsv1.ReplicaSet{TypeMeta: metav1.TypeMeta{APIVersion: "apps/v1", Kind: "ReplicaSet"}, ObjectMeta: om}
			rs.Generation, rs.Status.ObservedGeneration = gen(c.Observed)
			rs.Spec.Selector = &metav1.LabelSelector{MatchLabels: podLabels}
			rs.Spec.Template = podTemplate()
			m = rs
		} else {
			rc := &corev1.ReplicationController{TypeMeta: metav1.TypeMeta{APIVersion: "v1", Kind: "ReplicationController"}, ObjectMeta: om}
			rc.Generation, rc.Status.ObservedGeneration = gen(c.Observed)
			rc.Spec.Selector = podLabels
			t := podTemplate()
			rc.Spec.Template = &t
			m = rc
		}
		live = []runtime.Object{m}
		for i, r := range c.Pods {
			live = append(live, pod(fmt.Sprintf("o1-p%d", i), map[bool]string{true: "True", false: "False"}[r]))
		}
		// a pod of somebody else in the namespace (other labels, not ready) must not count
		other := pod("stranger", "False")
		other.Labels = map[string]string{"app": "y"}
		live = append(live, other)
		return m, live, nil
	case "ConfigMap":
		m := &corev1.ConfigMap{TypeMeta: metav1.TypeMeta{APIVersion: "v1", Kind: "ConfigMap"}, ObjectMeta: om}
		return m, []runtime.Object{m}, nil
	case "Secret":
		m := &corev1.Secret{TypeMeta: metav1.TypeMeta{APIVersion: "v1", Kind: "Secret"}, ObjectMeta: om}
		return m, []runtime.Object{m}, nil
	}
	return nil, nil, fmt.Errorf("unknown kind %q", c.Kind)
}

func crdObject(c Case) map[string]interface{} {
	conds := []interface{}{}
	for _, x := range c.Conds {
		conds = append(conds, map[string]interface{}{"type": x.Type, "status": x.Status})
	}
	return map[string]interface{}{
		"apiVersion": "apiextensions.k8s.io/v1", "kind": "CustomResourceDefinition",
		"metadata": map[string]interface{}{"name": "things.verif.example"},
		"spec": map[string]interface{}{"group": "verif.example", "scope": "Namespaced",
			"names":    map[string]interface{}{"kind": "Thing", "plural": "things"},
			"versions": []interface{}{map[string]interface{}{"name": "v1", "served": true, "storage": true, "schema": map[string]interface{}{"openAPIV3Schema": map[string]interface{}{"type": "object"}}}}},
		"status": map[string]interface{}{"conditions": conds},
	}
}

func RunCase(raw json.RawMessage) (o Obs) {
	o.Case = raw
	defer func() {
		if r := recover(); r != nil {
			o.Got, o.Err = "panic", fmt.Sprint(r)
		}
	}()
	var c Case
	if err := json.Unmarshal(raw, &c); err != nil {
		o.Harness = "case: " + err.Error()
		return
	}
	sim := simcluster.New()
	kc := &kube.Client{Factory: &simcluster.Factory{RT: sim.Transport(-1), Namespace: ns}, Namespace: ns}
	var manifest []byte
	var live []runtime.Object
	if c.Kind == "CustomResourceDefinition" {
		obj := crdObject(c)
		sim.Put(simcluster.Key{Group: "apiextensions.k8s.io", Version: "v1", Resource: "customresourcedefinitions", Name: "things.verif.example"}, obj)
		spec := map[string]interface{}{}
		for k, v := range obj {
			if k != "status" {
				spec[k] = v
			}
		}
		manifest, _ = json.Marshal(spec)
	} else {
		main, lv, err := build(c)
		if err != nil {
			o.Harness = err.Error()
			return
		}
		live = lv
		manifest, err = json.Marshal(main)
		if err != nil {
			o.Harness = "marshal: " + err.Error()
			return
		}
	}
	list, err := kc.Build(bytes.NewReader(manifest), false)
	if err != nil || len(list) != 1 {
		o.Harness = fmt.Sprintf("build: %v (%d objects)", err, len(list))
		return
	}
	cs := fake.NewSimpleClientset(live...)
	opts := []kube.ReadyCheckerOption{kube.PausedAsReady(c.PausedAsReady), kube.CheckJobs(c.CheckJobs)}
	rc := kube.NewReadyChecker(cs, opts...)
	ready, rerr := rc.IsReady(context.Background(), list[0])
	switch {
	case rerr != nil:
		o.Got, o.Err = "error", rerr.Error()
	case ready:
		o.Got = "ready"
	default:
		o.Got = "notready"
	}
	return
}

// Run reads {case, want} lines and writes observations in the same order.
func Run(in, out string) (int, error) {
	f, err := os.Open(in)
	if err != nil {
		return 0, err
	}
	defer f.Close()
	w, err := os.Create(out)
	if err != nil {
		return 0, err
	}
	defer w.Close()
	bw := bufio.NewWriter(w)
	sc := bufio.NewScanner(f)
	sc.Buffer(make([]byte, 1<<20), 1<<26)
	n := 0
	for sc.Scan() {
		if len(strings.TrimSpace(sc.Text())) == 0 {
			continue
		}
		var l Line
		if err := json.Unmarshal(sc.Bytes(), &l); err != nil {
			return n, err
		}
		b, _ := json.Marshal(RunCase(l.Case))
		bw.Write(b)
		bw.WriteByte('\n')
		n++
	}
	return n, bw.Flush()
}
