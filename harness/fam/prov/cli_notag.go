//go:build !verif

package prov

import (
	"errors"

	"helm.sh/helm/v4/pkg/action"
)

func runCLI(_ *action.Configuration, _ []string) (string, error) {
	return "", errors.New("built without the verif tag: pkg/cmd is not reachable")
}
