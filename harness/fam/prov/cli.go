//go:build verif

package prov

import (
	"bytes"
	"io"
	"log/slog"
	"sync"

	"helm.sh/helm/v4/pkg/action"
	helmcmd "helm.sh/helm/v4/pkg/cmd"
)

var cliMu sync.Mutex

// runCLI executes one helm command line through pkg/cmd (flag parsing and command wiring included).
func runCLI(cfg *action.Configuration, args []string) (string, error) {
	cliMu.Lock()
	defer cliMu.Unlock()
	var out bytes.Buffer
	root, err := helmcmd.NewRootCmdWithConfigForVerif(cfg, &out, args)
	slog.SetDefault(slog.New(slog.NewTextHandler(io.Discard, nil)))
	if err != nil {
		return "", err
	}
	root.SetArgs(args)
	root.SetOut(&out)
	root.SetErr(io.Discard)
	err = root.Execute()
	return out.String(), err
}
