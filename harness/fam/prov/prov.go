// Package prov is the Go side of C17 (Provenance.tla): it realises the symbolic tamper sequences TLC
// enumerated with real OpenPGP keys and concrete byte mutations, and asks the real code
// (provenance.Signatory.Verify / ClearSign, downloader.VerifyChart, action.Verify,
// ChartPathOptions.LocateChart, ChartDownloader.DownloadTo with every verification strategy,
// action.Package --sign) for its verdict.
package prov

import (
	"bufio"
	"bytes"
	"compress/gzip"
	"crypto"
	"crypto/sha256"
	"encoding/hex"
	"encoding/json"
	"flag"
	"fmt"
	"io"
	"math/rand"
	"net"
	"net/http"
	"os"
	"path/filepath"
	"regexp"
	"runtime/debug"
	"strings"
	"sync"

	"golang.org/x/crypto/openpgp"           //nolint
	"golang.org/x/crypto/openpgp/armor"     //nolint
	"golang.org/x/crypto/openpgp/clearsign" //nolint
	"golang.org/x/crypto/openpgp/packet"    //nolint

	"helm.sh/helm/v4/pkg/action"
	chart "helm.sh/helm/v4/pkg/chart/v2"
	"helm.sh/helm/v4/pkg/chart/v2/loader"
	chartutil "helm.sh/helm/v4/pkg/chart/v2/util"
	kubefake "helm.sh/helm/v4/pkg/kube/fake"
	"helm.sh/helm/v4/pkg/storage"
	"helm.sh/helm/v4/pkg/storage/driver"
	"helm.sh/helm/v4/pkg/cli"
	"helm.sh/helm/v4/pkg/downloader"
	"helm.sh/helm/v4/pkg/getter"
	"helm.sh/helm/v4/pkg/provenance"
	"helm.sh/helm/v4/pkg/repo"
	"sigs.k8s.io/yaml"
)

func Register(c map[string]func(args []string) error) {
	c["prov-run"] = cmdRun
}

type Case struct {
	ID       int             `json:"id"`
	Hist     []string        `json:"hist"`
	Ring     string          `json:"ring"`
	Keys     map[string]bool `json:"keys"`
	Accept   bool            `json:"accept"`
	Download []struct {
		Strategy    string `json:"strategy"`
		WithProv    bool   `json:"withProv"`
		WithoutProv bool   `json:"withoutProv"`
	} `json:"download"`
	Pull []struct {
		Verify      bool `json:"verify"`
		Later       bool `json:"later"`
		WithProv    bool `json:"withProv"`
		WithoutProv bool `json:"withoutProv"`
	} `json:"pull"`
	History []struct {
		First    string `json:"first"`
		Verdicts []bool `json:"verdicts"`
	} `json:"history"`
	CLI []struct {
		Cmd    string `json:"cmd"`
		Verify bool   `json:"verify"`
		OK     bool   `json:"ok"`
	} `json:"cli"`
	Built []struct {
		How string `json:"how"`
		Own string `json:"own"`
		OK  bool   `json:"ok"`
	} `json:"built"`
	Locate []struct {
		Verify bool `json:"verify"`
		Repo   bool `json:"repo"`
		OK     bool `json:"ok"`
	} `json:"locate"`
	Deps []struct {
		Order    []string `json:"order"`
		Strategy string   `json:"strategy"`
		OK       bool     `json:"ok"`
	} `json:"deps"`
}

// Obs is one concrete realisation of a case and what the real code said about it.
type Obs struct {
	ID       int      `json:"id"`
	Rep      int      `json:"rep"`
	Hist     []string `json:"hist"`
	Ring     string   `json:"ring"`
	Muts     []string `json:"muts"`     // the concrete mutation chosen for every action
	Route    string   `json:"route"`    // Verify | VerifyChart | action.Verify | LocateChart | DownloadTo/<strategy>/<prov> | Package
	Expect   bool     `json:"expect"`   // the specification's verdict for the case (TRUE = accepted / returns without error)
	Equiv    bool     `json:"equiv"`    // the mutated provenance file decodes to the same canonical text and signature packet: not a tampering
	Accepted bool     `json:"accepted"` // the real code returned without error
	HashOK   bool     `json:"hashok"`   // ... and reported the digest and name of the archive as it stands, signed by the expected key
	Err      string   `json:"err,omitempty"`
	Panic    string   `json:"panic,omitempty"`
}

type world struct {
	dir      string
	keys     map[string]*openpgp.Entity
	secFile  map[string]string
	ringFile map[string]string
	secAll   string
	archive  []byte
	name     string
	prov     string // signed by helm's ClearSign with the signer's key
	chartDir string
	rng      *rand.Rand
	// a second, untampered chart signed by the signer (the other dependency of a dependency update)
	origPath    string
	goodName    string
	goodArchive []byte
	goodProv    string
	version     string
}

var pgpConfig = &packet.Config{DefaultHash: crypto.SHA512, RSABits: 2048}

func newWorld(dir string, seed int64) (*world, error) {
	w := &world{dir: dir, keys: map[string]*openpgp.Entity{}, secFile: map[string]string{}, ringFile: map[string]string{},
		rng: rand.New(rand.NewSource(seed))}
	os.MkdirAll(dir, 0o755)
	for _, k := range []string{"signer", "other", "third"} {
		e, err := openpgp.NewEntity(fmt.Sprintf("C17 %s %d", k, seed), "generated", k+"@c17.test", pgpConfig)
		if err != nil {
			return nil, err
		}
		w.keys[k] = e
		var sec bytes.Buffer
		if err := e.SerializePrivate(&sec, nil); err != nil { // also produces the self-signatures
			return nil, err
		}
		w.secFile[k] = filepath.Join(dir, "sec_"+k+".gpg")
		os.WriteFile(w.secFile[k], sec.Bytes(), 0o600)
	}
	var all bytes.Buffer
	for _, k := range []string{"signer", "other", "third"} {
		b, _ := os.ReadFile(w.secFile[k])
		all.Write(b)
	}
	w.secAll = filepath.Join(dir, "secring.gpg")
	os.WriteFile(w.secAll, all.Bytes(), 0o600)
	for ring, members := range map[string][]string{"signer": {"signer"}, "both": {"third", "signer", "other"}, "others": {"other", "third"}, "empty": {}} {
		var pub bytes.Buffer
		for _, k := range members {
			if err := w.keys[k].Serialize(&pub); err != nil {
				return nil, err
			}
		}
		w.ringFile[ring] = filepath.Join(dir, "pub_"+ring+".gpg")
		os.WriteFile(w.ringFile[ring], pub.Bytes(), 0o644)
	}
	// the chart: a directory (for Package) and its archive
	w.chartDir = filepath.Join(dir, "src", "mychart")
	os.MkdirAll(filepath.Join(w.chartDir, "templates"), 0o755)
	os.WriteFile(filepath.Join(w.chartDir, "Chart.yaml"), []byte(fmt.Sprintf(
		"apiVersion: v2\nname: mychart\nversion: 1.2.%d\ndescription: A sample chart for provenance checks\n", w.rng.Intn(50))), 0o644)
	os.WriteFile(filepath.Join(w.chartDir, "values.yaml"), []byte(fmt.Sprintf("replicas: %d\nnote: %x\n", w.rng.Intn(9), w.rng.Int63())), 0o644)
	os.WriteFile(filepath.Join(w.chartDir, "templates", "cm.yaml"),
		[]byte("apiVersion: v1\nkind: ConfigMap\nmetadata:\n  name: {{ .Release.Name }}\ndata:\n  k: "+strings.Repeat("v", 300+w.rng.Intn(300))+"\n"), 0o644)
	pk := action.NewPackage()
	pk.Destination = filepath.Join(dir, "orig")
	os.MkdirAll(pk.Destination, 0o755)
	p, err := pk.Run(w.chartDir, nil)
	if err != nil {
		return nil, err
	}
	w.name = filepath.Base(p)
	w.origPath = p
	w.archive, _ = os.ReadFile(p)
	s, err := provenance.NewFromFiles(w.secFile["signer"], w.ringFile["signer"])
	if err != nil {
		return nil, err
	}
	w.prov, err = s.ClearSign(p)
	if err != nil {
		return nil, err
	}
	w.version = strings.TrimSuffix(strings.TrimPrefix(w.name, "mychart-"), ".tgz")
	gdir := filepath.Join(dir, "src", "goodchart")
	os.MkdirAll(filepath.Join(gdir, "templates"), 0o755)
	os.WriteFile(filepath.Join(gdir, "Chart.yaml"), []byte("apiVersion: v2\nname: goodchart\nversion: 0.3.0\ndescription: the untampered neighbour\n"), 0o644)
	os.WriteFile(filepath.Join(gdir, "templates", "cm.yaml"), []byte("apiVersion: v1\nkind: ConfigMap\nmetadata:\n  name: good\n"), 0o644)
	gp, err := pk.Run(gdir, nil)
	if err != nil {
		return nil, err
	}
	w.goodName = filepath.Base(gp)
	w.goodArchive, _ = os.ReadFile(gp)
	if w.goodProv, err = s.ClearSign(gp); err != nil {
		return nil, err
	}
	return w, nil
}

// concrete is the concrete counterpart of the symbolic state.
type concrete struct {
	link        bool // the archive is presented through a symbolic link of the name c.name
	caseVariant int
	flipped     map[int]bool
	archive []byte
	name    string
	prov    []byte
	sigKey  string
	muts    []string
}

var sigStart = []byte("\n-----BEGIN PGP SIGNATURE-----")

// bodyRange: the clear text between the armor headers of the signed message and the signature block
func bodyRange(prov []byte) (int, int) {
	i := bytes.Index(prov, []byte("\n\n"))
	j := bytes.Index(prov, sigStart)
	if i < 0 || j < 0 || i+2 > j {
		return -1, -1
	}
	return i + 2, j
}

type decoded struct {
	ok     bool
	bytes  []byte
	plain  []byte
	packet []byte
}

func decode(prov []byte) decoded {
	b, _ := clearsign.Decode(prov)
	if b == nil {
		return decoded{}
	}
	pk, err := io.ReadAll(b.ArmoredSignature.Body)
	if err != nil {
		return decoded{}
	}
	return decoded{ok: true, bytes: b.Bytes, plain: b.Plaintext, packet: pk}
}

func equivalent(a, b []byte) bool {
	da, db := decode(a), decode(b)
	return da.ok && db.ok && bytes.Equal(da.bytes, db.bytes) && bytes.Equal(da.packet, db.packet)
}

func sha(b []byte) string {
	h := sha256.Sum256(b)
	return hex.EncodeToString(h[:])
}

var digestRe = regexp.MustCompile(`sha256:[0-9a-f]{64}`)

// the line of the files section that records the archive: "  name.tgz: value"
var filesLineRe = regexp.MustCompile(`(?mi)^(\s+\S+\.tgz:)[^\n]*$`)

// semanticSigOffsets: byte offsets of the decoded signature packet whose change alters the signature
// semantically: version, type, algorithms, hashed subpackets, hash tag and the signature value.  The
// packet length header, the unhashed subpackets and the bit-length prefix of the value are left out
// (an encoding of the same signature would not be a tampering).
func semanticSigOffsets(pk []byte) (out []int) {
	defer func() {
		if recover() != nil { // a packet an earlier edit has already broken: its signature value is at the end
			out = nil
			for i := len(pk) - 64; i < len(pk); i++ {
				if i >= 0 {
					out = append(out, i)
				}
			}
		}
	}()
	if len(pk) < 12 {
		panic("short")
	}
	// new- or old-format header
	hdr := 0
	switch {
	case pk[0]&0x40 != 0: // new format
		switch {
		case pk[1] < 192:
			hdr = 2
		case pk[1] < 224:
			hdr = 3
		default:
			hdr = 6
		}
	default:
		switch pk[0] & 3 {
		case 0:
			hdr = 2
		case 1:
			hdr = 3
		case 2:
			hdr = 5
		}
	}
	if hdr == 0 || pk[hdr] != 4 {
		panic("not a v4 signature")
	}
	p := hdr + 4
	hashedLen := int(pk[p])<<8 | int(pk[p+1])
	for i := hdr; i < p+2+hashedLen; i++ {
		_ = pk[i]
		out = append(out, i)
	}
	p += 2 + hashedLen
	unhashedLen := int(pk[p])<<8 | int(pk[p+1])
	p += 2 + unhashedLen
	_ = pk[p+1]
	out = append(out, p, p+1) // hash tag
	p += 2
	p += 2 // bit length of the MPI
	if p >= len(pk) {
		panic("no signature value")
	}
	for i := p; i < len(pk); i++ {
		out = append(out, i)
	}
	return out
}

func rearmor(prov []byte, packetBytes []byte) []byte {
	j := bytes.Index(prov, sigStart)
	var buf bytes.Buffer
	buf.Write(prov[:j+1])
	w, _ := armor.Encode(&buf, "PGP SIGNATURE", nil)
	w.Write(packetBytes)
	w.Close()
	buf.WriteByte('\n')
	return buf.Bytes()
}

// apply realises one abstract action on c; m selects the concrete mutation (-1 = seeded choice).
func (w *world) apply(c *concrete, act string, m int) error {
	pick := func(n int) int {
		if m >= 0 {
			return m % n
		}
		return w.rng.Intn(n)
	}
	switch act {
	case "FlipArchive":
		if len(c.archive) == 0 { // an earlier truncation left nothing to flip
			c.archive = []byte{0x01}
			c.muts = append(c.muts, "one byte appended to the empty archive")
			break
		}
		bit := pick(len(c.archive) * 8)
		for c.flipped[bit] { // a second flip never undoes the first
			bit = (bit + 1) % (len(c.archive) * 8)
		}
		if c.flipped == nil {
			c.flipped = map[int]bool{}
		}
		c.flipped[bit] = true
		c.archive = append([]byte(nil), c.archive...)
		c.archive[bit/8] ^= 1 << (bit % 8)
		c.muts = append(c.muts, fmt.Sprintf("archive bit %d", bit))
	case "TruncArchive":
		n := 0
		if len(c.archive) > 0 {
			n = pick(len(c.archive))
		}
		if m < 0 && len(c.archive) > 1 { // within a sequence: never down to nothing, so that a later action still has bytes to work on
			n = 1 + w.rng.Intn(len(c.archive)-1)
		}
		c.flipped = nil
		c.archive = c.archive[:n]
		c.muts = append(c.muts, fmt.Sprintf("archive cut to %d bytes", n))
	case "Rename": // the name is a function of the abstract name alone: renaming twice gives the same name
		c.name = strings.Replace(w.name, "mychart-", "mychart-copy-", 1)
		c.link = false
		c.muts = append(c.muts, "archive named "+c.name)
	case "RenameLink": // the same new name as Rename, but the file of that name is a symbolic link to the archive
		c.name = strings.Replace(w.name, "mychart-", "mychart-copy-", 1)
		c.link = true
		c.muts = append(c.muts, "archive reached through a symbolic link named "+c.name)
	case "Repack": // gunzip and gzip again with other settings: other bytes, the same chart
		zr, err := gzip.NewReader(bytes.NewReader(c.archive))
		if err != nil {
			c.archive = append(append([]byte(nil), c.archive...), 0) // not a gzip stream any more: grow it
			c.muts = append(c.muts, "one byte appended to the archive")
			break
		}
		raw, err := io.ReadAll(zr)
		if err != nil {
			c.archive = append(append([]byte(nil), c.archive...), 0)
			c.muts = append(c.muts, "one byte appended to the archive")
			break
		}
		var buf bytes.Buffer
		zw, _ := gzip.NewWriterLevel(&buf, 1+w.rng.Intn(8))
		zw.Comment = fmt.Sprintf("repacked %d", w.rng.Int63())
		zw.Write(raw)
		zw.Close()
		c.archive = buf.Bytes()
		c.flipped = nil
		c.muts = append(c.muts, "archive gunzipped and gzipped again")
	case "RenameCase": // the original letters in another case (the extension still says tgz to helm)
		if c.caseVariant == 0 {
			c.caseVariant = 1 + pick(3)
		}
		switch c.caseVariant {
		case 1:
			c.name = strings.ToUpper(w.name[:1]) + w.name[1:]
		case 2:
			c.name = strings.TrimSuffix(w.name, ".tgz") + ".TGZ"
		default:
			c.name = strings.ToUpper(strings.TrimSuffix(w.name, ".tgz")) + ".tgz"
		}
		c.muts = append(c.muts, "archive named "+c.name)
	case "EditBody":
		lo, hi := bodyRange(c.prov)
		if lo < 0 {
			return fmt.Errorf("no body")
		}
		var cand []int
		if m >= 0 { // single-step case: any byte of the signed text
			for i := lo; i < hi; i++ {
				cand = append(cand, i)
			}
		} else { // within a sequence: a letter of the description (the files section stays as it is)
			d := bytes.Index(c.prov[lo:hi], []byte("description: "))
			if d < 0 {
				return fmt.Errorf("no description")
			}
			for i := lo + d + len("description: "); i < hi && c.prov[i] != '\n'; i++ {
				if c.prov[i] >= 'a' && c.prov[i] <= 'z' {
					cand = append(cand, i)
				}
			}
		}
		i := cand[pick(len(cand))]
		np := append([]byte(nil), c.prov...)
		if np[i] >= 'a' && np[i] < 'z' || np[i] >= '0' && np[i] < '9' {
			np[i]++
		} else if np[i] == 'z' {
			np[i] = 'a'
		} else {
			np[i] = 'Q'
		}
		c.muts = append(c.muts, fmt.Sprintf("signed text byte %d: %q -> %q", i-lo, c.prov[i], np[i]))
		c.prov = np
	case "SignEmpty", "SignTail", "SignHead", "SignNoMarker":
		// a validly signed message (signer's own key) whose entry for the archive is not its digest
		full := sha(c.archive)
		val := map[string]string{"SignEmpty": "", "SignTail": full[56:], "SignHead": "sha256:" + full[:16], "SignNoMarker": full}[act]
		d := decode(c.prov)
		if !d.ok {
			return fmt.Errorf("provenance does not decode")
		}
		plain := filesLineRe.ReplaceAll(d.plain, []byte("${1} \""+val+"\""))
		var out bytes.Buffer
		ew, err := clearsign.Encode(&out, w.keys["signer"].PrivateKey, pgpConfig)
		if err != nil {
			return err
		}
		ew.Write(plain)
		if err := ew.Close(); err != nil {
			return err
		}
		c.prov = out.Bytes()
		c.muts = append(c.muts, fmt.Sprintf("signer signed a message that records %q for the archive", val))
	case "BreakDigest":
		loc := digestRe.FindIndex(c.prov)
		if loc == nil { // a crafted entry: put some other digest there
			c.prov = filesLineRe.ReplaceAll(c.prov, []byte(fmt.Sprintf("${1} sha256:%064x", w.rng.Int63())))
			c.muts = append(c.muts, "entry for the archive set to an unrelated digest")
			break
		}
		i := loc[0] + 7 + pick(64)
		np := append([]byte(nil), c.prov...)
		if np[i] == 'f' {
			np[i] = '0'
		} else if np[i] == '9' {
			np[i] = 'a'
		} else {
			np[i]++
		}
		c.muts = append(c.muts, fmt.Sprintf("digest hex digit %d changed", i-loc[0]-7))
		c.prov = np
	case "FixDigest":
		c.prov = filesLineRe.ReplaceAll(c.prov, []byte("${1} sha256:"+sha(c.archive)))
		c.muts = append(c.muts, "digest in the signed text set to the archive's")
	case "FixName":
		re := regexp.MustCompile(`(?mi)^(\s+)(\S+\.tgz):`)
		c.prov = re.ReplaceAll(c.prov, []byte("${1}"+c.name+":"))
		c.muts = append(c.muts, "file name in the signed text set to "+c.name)
	case "SwapSig":
		d := decode(c.prov)
		if !d.ok {
			return fmt.Errorf("cannot re-sign: provenance does not decode")
		}
		var out bytes.Buffer
		ew, err := clearsign.Encode(&out, w.keys["other"].PrivateKey, pgpConfig)
		if err != nil {
			return err
		}
		ew.Write(d.plain)
		if err := ew.Close(); err != nil {
			return err
		}
		c.prov = out.Bytes()
		c.sigKey = "other"
		c.muts = append(c.muts, "signed text re-signed with the attacker's key")
	case "EditSigPacket":
		d := decode(c.prov)
		if !d.ok {
			return fmt.Errorf("provenance does not decode")
		}
		offs := semanticSigOffsets(d.packet)
		if len(offs) == 0 {
			return fmt.Errorf("signature packet not understood")
		}
		bit := pick(len(offs) * 8)
		pk := append([]byte(nil), d.packet...)
		pk[offs[bit/8]] ^= 1 << (bit % 8)
		c.prov = rearmor(c.prov, pk)
		c.muts = append(c.muts, fmt.Sprintf("signature packet byte %d bit %d", offs[bit/8], bit%8))
	case "TruncProv":
		n := pick(len(c.prov))
		c.prov = c.prov[:n]
		c.muts = append(c.muts, fmt.Sprintf("provenance cut to %d bytes", n))
	default:
		return fmt.Errorf("unknown action %q", act)
	}
	return nil
}

func guard(f func() error) (err error, pan string) {
	defer func() {
		if p := recover(); p != nil {
			pan = fmt.Sprint(p) + "\n" + string(debug.Stack())
		}
	}()
	return f(), ""
}

type runner struct {
	histN   int
	srv     *fileServer
	allBits bool
	seed    int64
	w    *world
	out  *bufio.Writer
	n    int
	work string
}

func (r *runner) emit(o Obs) {
	if len(o.Err) > 200 {
		o.Err = o.Err[:200]
	}
	if len(o.Panic) > 1500 {
		o.Panic = o.Panic[:1500]
	}
	b, _ := json.Marshal(o)
	r.out.Write(b)
	r.out.WriteByte('\n')
	r.n++
}

// place writes the concrete state to disk and returns the archive path (provenance at path+".prov").
func (r *runner) place(c *concrete) string {
	dir := filepath.Join(r.work, "v")
	os.RemoveAll(dir)
	os.MkdirAll(dir, 0o755)
	p := filepath.Join(dir, c.name)
	if c.link && c.name != r.w.name {
		real := filepath.Join(dir, "real", r.w.name)
		os.MkdirAll(filepath.Dir(real), 0o755)
		os.WriteFile(real, c.archive, 0o644)
		os.WriteFile(real+".prov", c.prov, 0o644)
		os.Symlink(real, p)
	} else {
		os.WriteFile(p, c.archive, 0o644)
	}
	os.WriteFile(p+".prov", c.prov, 0o644)
	return p
}

func (r *runner) checkVerification(v *provenance.Verification, c *concrete) bool {
	if v == nil || v.SignedBy == nil {
		return false
	}
	return v.FileHash == "sha256:"+sha(c.archive) && v.FileName == c.name &&
		v.SignedBy.PrimaryKey.KeyId == r.w.keys[c.sigKey].PrimaryKey.KeyId
}

// verdicts asks the real code about one concrete state; wide = also the wrappers and the download strategies.
func (r *runner) verdicts(cs Case, rep int, c *concrete, wide bool) {
	base := Obs{ID: cs.ID, Rep: rep, Hist: cs.Hist, Ring: cs.Ring, Muts: c.muts, Expect: cs.Accept,
		Equiv: len(cs.Hist) > 0 && !cs.Accept && bytes.Equal(c.archive, r.w.archive) && c.name == r.w.name &&
			!bytes.Equal(c.prov, []byte(r.w.prov)) && equivalent(c.prov, []byte(r.w.prov))}
	ring := r.w.ringFile[cs.Ring]
	p := r.place(c)
	record := func(route string, expect bool, f func() (*provenance.Verification, error), needHash bool) {
		o := base
		o.Route, o.Expect = route, expect
		var v *provenance.Verification
		err, pan := guard(func() error {
			var e error
			v, e = f()
			return e
		})
		o.Panic = pan
		if err != nil {
			o.Err = err.Error()
		}
		o.Accepted = err == nil && pan == ""
		o.HashOK = o.Accepted && (!needHash || r.checkVerification(v, c))
		r.emit(o)
	}
	record("Signatory.Verify", cs.Accept, func() (*provenance.Verification, error) {
		s, err := provenance.NewFromKeyring(ring, "")
		if err != nil {
			return nil, err
		}
		return s.Verify(p, p+".prov")
	}, true)
	if !wide {
		return
	}
	record("downloader.VerifyChart", cs.Accept, func() (*provenance.Verification, error) { return downloader.VerifyChart(p, ring) }, true)
	record("action.Verify", cs.Accept, func() (*provenance.Verification, error) {
		v := action.NewVerify()
		v.Keyring = ring
		return nil, v.Run(p)
	}, false)
	record("ChartPathOptions.LocateChart", cs.Accept, func() (*provenance.Verification, error) {
		cpo := action.ChartPathOptions{Verify: true, Keyring: ring}
		_, err := cpo.LocateChart(p, cli.New())
		return nil, err
	}, false)
	// download strategies: the archive and (optionally) the provenance file are served by a getter
	for _, d := range cs.Download {
		for _, withProv := range []bool{true, false} {
			d, withProv := d, withProv
			expect := d.WithoutProv
			if withProv {
				expect = d.WithProv
			}
			strat := map[string]downloader.VerificationStrategy{"never": downloader.VerifyNever, "ifpossible": downloader.VerifyIfPossible,
				"always": downloader.VerifyAlways, "later": downloader.VerifyLater}[d.Strategy]
			record(fmt.Sprintf("DownloadTo/%s/%s", d.Strategy, map[bool]string{true: "prov", false: "noprov"}[withProv]), expect,
				func() (*provenance.Verification, error) {
					dest := filepath.Join(r.work, "dl")
					os.RemoveAll(dest)
					os.MkdirAll(dest, 0o755)
					g := serveGetter{archive: c.archive, prov: c.prov, withProv: withProv}
					dl := downloader.ChartDownloader{Out: io.Discard, Verify: strat, Keyring: ring,
						Getters:          getter.Providers{{Schemes: []string{"http"}, New: func(...getter.Option) (getter.Getter, error) { return g, nil }}},
						RepositoryConfig: filepath.Join(r.work, "no-repositories.yaml"), RepositoryCache: filepath.Join(r.work, "cache")}
					_, v, err := dl.DownloadTo("http://charts.c17.test/stable/"+c.name, "", dest)
					return v, err
				}, false)
		}
	}
	if rep != 0 || (len(cs.Hist) >= 2 && cs.ID%4 != 0) { // the routes below do not depend on how deep the tampering went: every fourth longer case
		return
	}
	// helm pull with every combination of --verify and --prov, from a loopback server
	for _, pl := range cs.Pull {
		for _, withProv := range []bool{true, false} {
			if !withProv && !pl.Verify {
				continue // nothing is required, nothing to fetch: the same as the download strategies above
			}
			pl, withProv := pl, withProv
			expect := pl.WithoutProv
			if withProv {
				expect = pl.WithProv
			}
			record(fmt.Sprintf("action.Pull/verify=%v,prov=%v/%s", pl.Verify, pl.Later, map[bool]string{true: "prov", false: "noprov"}[withProv]), expect,
				func() (*provenance.Verification, error) {
					dest := filepath.Join(r.work, "pull")
					os.RemoveAll(dest)
					os.MkdirAll(dest, 0o755)
					r.srv.set(map[string][]byte{"/stable/" + c.name: c.archive}, nil)
					if withProv {
						r.srv.set(map[string][]byte{"/stable/" + c.name: c.archive, "/stable/" + c.name + ".prov": c.prov}, nil)
					}
					st := cli.New()
					st.RepositoryConfig = filepath.Join(r.work, "no-repositories.yaml")
					st.RepositoryCache = filepath.Join(r.work, "cache")
					st.PluginsDirectory = filepath.Join(r.work, "no-plugins")
					p := action.NewPull(action.WithConfig(&action.Configuration{}))
					p.Settings, p.DestDir, p.Keyring = st, dest, ring
					p.Verify, p.VerifyLater = pl.Verify, pl.Later
					_, err := p.Run(r.srv.url + "/stable/" + c.name)
					return nil, err
				}, false)
		}
	}
	// how the Signatory was built: its own Entity must not count as trusted
	for _, b := range cs.Built {
		b := b
		record("Signatory("+b.How+","+b.Own+").Verify", b.OK, func() (*provenance.Verification, error) {
			var s *provenance.Signatory
			var err error
			if b.How == "keyfile+ring" {
				s, err = provenance.NewFromFiles(r.w.secFile[b.Own], ring)
			} else { // the id picks the signing Entity out of the same keyring (none if the keyring has no such key)
				s, err = provenance.NewFromKeyring(ring, fmt.Sprintf("C17 %s %d", b.Own, r.seed))
			}
			if err != nil {
				return nil, err
			}
			return s.Verify(p, p+".prov")
		}, false)
	}
	// the command line
	_, loadErr := loader.LoadFile(p)
	for _, cl := range cs.CLI {
		cl := cl
		if cl.OK && loadErr != nil && cl.Cmd != "verify" && cl.Cmd != "pull" {
			continue // verifies, but the bytes are no chart any more: installing fails for that reason
		}
		record("helm "+cl.Cmd+" --verify", cl.OK, func() (*provenance.Verification, error) {
			cfg := &action.Configuration{Releases: storage.Init(driver.NewMemory()), KubeClient: &kubefake.PrintingKubeClient{Out: io.Discard},
				Capabilities: chartutil.DefaultCapabilities}
			var err error
			switch cl.Cmd {
			case "verify":
				_, err = runCLI(cfg, []string{"verify", p, "--keyring", ring})
			case "pull":
				dest := filepath.Join(r.work, "clipull")
				os.RemoveAll(dest)
				os.MkdirAll(dest, 0o755)
				r.srv.set(map[string][]byte{"/stable/" + c.name: c.archive, "/stable/" + c.name + ".prov": c.prov}, nil)
				_, err = runCLI(cfg, []string{"pull", r.srv.url + "/stable/" + c.name, "--verify", "--keyring", ring, "-d", dest})
			case "install":
				_, err = runCLI(cfg, []string{"install", "rel", p, "--verify", "--keyring", ring, "--namespace", "ns"})
			case "upgrade-install":
				_, err = runCLI(cfg, []string{"upgrade", "rel", p, "--install", "--verify", "--keyring", ring, "--namespace", "ns"})
			case "upgrade":
				if _, err = runCLI(cfg, []string{"install", "rel", r.w.origPath, "--namespace", "ns"}); err != nil {
					return nil, fmt.Errorf("harness: the release to upgrade could not be installed: %v", err)
				}
				_, err = runCLI(cfg, []string{"upgrade", "rel", p, "--verify", "--keyring", ring, "--namespace", "ns"})
			}
			return nil, err
		}, false)
	}
	// the keyring file rewritten between two verifications through the same path
	for hi, h := range cs.History {
		if h.First == cs.Ring || len(h.Verdicts) != 2 {
			continue
		}
		r.histN++
		P := filepath.Join(r.work, fmt.Sprintf("keyring-%d-%d.gpg", cs.ID, r.histN))
		for step, ringName := range []string{h.First, cs.Ring} {
			step, ringName := step, ringName
			b, _ := os.ReadFile(r.w.ringFile[ringName])
			os.WriteFile(P, b, 0o644)
			record(fmt.Sprintf("VerifyChart/history/%s->%s/step%d", h.First, cs.Ring, step+1), h.Verdicts[step],
				func() (*provenance.Verification, error) { return downloader.VerifyChart(p, P) }, false)
		}
		os.Remove(P)
		_ = hi
	}
	// install / template / show --verify --repo <url>: the chart is looked up in the repository's index and downloaded
	for _, lc := range cs.Locate {
		lc := lc
		record(fmt.Sprintf("LocateChart/repo/verify=%v", lc.Verify), lc.OK, func() (*provenance.Verification, error) {
			ix := repo.NewIndexFile()
			ix.MustAdd(&chart.Metadata{APIVersion: "v2", Name: "mychart", Version: r.w.version}, c.name, "", "")
			ib, _ := yaml.Marshal(ix)
			r.srv.set(map[string][]byte{"/repo/index.yaml": ib, "/repo/" + c.name: c.archive, "/repo/" + c.name + ".prov": c.prov}, nil)
			st := cli.New()
			st.RepositoryConfig = filepath.Join(r.work, "no-repositories.yaml")
			st.RepositoryCache = filepath.Join(r.work, "locate-cache")
			st.PluginsDirectory = filepath.Join(r.work, "no-plugins")
			os.RemoveAll(st.RepositoryCache)
			cpo := action.ChartPathOptions{RepoURL: r.srv.url + "/repo", Verify: lc.Verify, Keyring: ring}
			_, err := cpo.LocateChart("mychart", st)
			return nil, err
		}, false)
	}
	// helm dependency update with verification required: this chart and an untampered neighbour, in either order
	for _, dp := range cs.Deps {
		dp := dp
		record("Manager.Update/"+dp.Strategy+"/"+strings.Join(dp.Order, "+"), dp.OK, func() (*provenance.Verification, error) {
			return nil, r.depsUpdate(c, ring, dp.Order)
		}, false)
	}
}

// fileServer: a loopback HTTP server for the code that only speaks through getter.All.
type fileServer struct {
	mu    sync.Mutex
	files map[string][]byte
	url   string
}

func (f *fileServer) set(files map[string][]byte, _ any) {
	f.mu.Lock()
	f.files = files
	f.mu.Unlock()
}

func startFileServer() (*fileServer, error) {
	f := &fileServer{}
	ln, err := net.Listen("tcp", "127.0.0.1:0")
	if err != nil {
		return nil, err
	}
	f.url = "http://" + ln.Addr().String()
	srv := &http.Server{}
	srv.SetKeepAlivesEnabled(false) // every Pull builds its own transport: no idle connections may pile up
	srv.Handler = http.HandlerFunc(func(w http.ResponseWriter, rq *http.Request) {
		w.Header().Set("Connection", "close")
		f.mu.Lock()
		b, ok := f.files[rq.URL.Path]
		f.mu.Unlock()
		if !ok {
			http.NotFound(w, rq)
			return
		}
		w.Write(b)
	})
	go srv.Serve(ln)
	return f, nil
}

// mapGetter serves the files of a repository by the base name of the URL.
type mapGetter struct{ files map[string][]byte }

func (g mapGetter) Get(href string, _ ...getter.Option) (*bytes.Buffer, error) {
	b, ok := g.files[filepath.Base(href)]
	if !ok {
		return nil, fmt.Errorf("failed to fetch %s : 404 Not Found", href)
	}
	return bytes.NewBuffer(append([]byte(nil), b...)), nil
}

// depsUpdate: Manager.Update (VerifyAlways) of a chart that depends on this chart and on the good one.
func (r *runner) depsUpdate(c *concrete, ring string, order []string) error {
	w := r.w
	dir := filepath.Join(r.work, "deps")
	os.RemoveAll(dir)
	cache := filepath.Join(dir, "cache")
	os.MkdirAll(cache, 0o755)
	const repoURL = "http://deps.c17.test/charts"
	repoCfg := filepath.Join(dir, "repositories.yaml")
	rf := repo.NewFile()
	rf.Add(&repo.Entry{Name: "r", URL: repoURL})
	rf.WriteFile(repoCfg, 0o644)
	ix := repo.NewIndexFile()
	ix.MustAdd(&chart.Metadata{APIVersion: "v2", Name: "mychart", Version: w.version}, c.name, repoURL, "")
	ix.MustAdd(&chart.Metadata{APIVersion: "v2", Name: "goodchart", Version: "0.3.0"}, w.goodName, repoURL, "")
	ix.SortEntries()
	ix.WriteFile(filepath.Join(cache, "r-index.yaml"), 0o644)
	cdir := filepath.Join(dir, "parent")
	os.MkdirAll(cdir, 0o755)
	md := &chart.Metadata{APIVersion: "v2", Name: "parent", Version: "0.1.0"}
	for _, d := range order {
		if d == "this" {
			md.Dependencies = append(md.Dependencies, &chart.Dependency{Name: "mychart", Version: w.version, Repository: repoURL})
		} else {
			md.Dependencies = append(md.Dependencies, &chart.Dependency{Name: "goodchart", Version: "0.3.0", Repository: repoURL})
		}
	}
	b, _ := yaml.Marshal(md)
	os.WriteFile(filepath.Join(cdir, "Chart.yaml"), b, 0o644)
	g := mapGetter{files: map[string][]byte{c.name: c.archive, c.name + ".prov": c.prov,
		w.goodName: w.goodArchive, w.goodName + ".prov": []byte(w.goodProv)}}
	m := &downloader.Manager{Out: io.Discard, ChartPath: cdir, SkipUpdate: true, Verify: downloader.VerifyAlways, Keyring: ring,
		Getters:          getter.Providers{{Schemes: []string{"http"}, New: func(...getter.Option) (getter.Getter, error) { return g, nil }}},
		RepositoryConfig: repoCfg, RepositoryCache: cache}
	return m.Update()
}

type serveGetter struct {
	archive, prov []byte
	withProv      bool
}

func (g serveGetter) Get(href string, _ ...getter.Option) (*bytes.Buffer, error) {
	if strings.HasSuffix(href, ".prov") {
		if !g.withProv {
			return nil, fmt.Errorf("failed to fetch %s : 404 Not Found", href)
		}
		return bytes.NewBuffer(append([]byte(nil), g.prov...)), nil
	}
	return bytes.NewBuffer(append([]byte(nil), g.archive...)), nil
}

// mutation sets of the single-step cases
func (r *runner) singleSet(act string, full bool, c *concrete) []int {
	w := r.w
	sample := func(n, k int) []int {
		out := []int{}
		for i := 0; i < k; i++ {
			out = append(out, w.rng.Intn(n))
		}
		return out
	}
	if !full {
		switch act {
		case "Rename", "RenameLink", "Repack", "FixDigest", "FixName", "SwapSig", "SignEmpty", "SignTail", "SignHead", "SignNoMarker":
			return []int{0}
		case "RenameCase":
			return []int{0, 1, 2}
		}
		return sample(1<<30, 12)
	}
	switch act {
	case "RenameCase":
		return []int{0, 1, 2}
	case "FlipArchive":
		n := len(c.archive)
		out := []int{}
		for b := 0; b < 64*8; b++ { // every bit of the first and of the last 64 bytes
			out = append(out, b, (n-64)*8+b)
		}
		if r.allBits { // thorough: every bit of the archive
			for b := 64 * 8; b < (n-64)*8; b++ {
				out = append(out, b)
			}
			return out
		}
		for _, s := range sample((n-128)*8, 96) { // and seeded samples in between
			out = append(out, 64*8+s)
		}
		return out
	case "TruncArchive":
		n := len(c.archive)
		return append([]int{0, 1, 9, 10, 11, n / 2, n - 64, n - 2, n - 1}, sample(n, 12)...)
	case "EditBody":
		lo, hi := bodyRange(c.prov)
		out := []int{}
		for i := 0; i < hi-lo; i++ { // every byte of the signed text
			out = append(out, i)
		}
		return out
	case "BreakDigest":
		out := []int{}
		for i := 0; i < 64; i++ {
			out = append(out, i)
		}
		return out
	case "EditSigPacket":
		d := decode(c.prov)
		n := len(semanticSigOffsets(d.packet)) * 8
		out := []int{}
		for i := 0; i < 30*8 && i < n; i++ { // version .. hashed subpackets .. hash tag
			out = append(out, i)
		}
		return append(out, sample(n, 160)...)
	case "TruncProv":
		n := len(c.prov)
		out := []int{0, 1, 33, 34, 35, n - 30, n - 29, n - 28, n - 3, n - 2, n - 1}
		lo, hi := bodyRange(c.prov)
		out = append(out, lo-1, lo, lo+1, hi-1, hi, hi+1, hi+29, hi+30, hi+31)
		return append(out, sample(n, 48)...)
	}
	return []int{0}
}

func (r *runner) runCase(cs Case, reps int) error {
	w := r.w
	w.rng = rand.New(rand.NewSource(r.seed*1000003 + int64(cs.ID))) // a case replays alike on its own
	fresh := func() *concrete {
		return &concrete{archive: w.archive, name: w.name, prov: []byte(w.prov), sigKey: "signer"}
	}
	if len(cs.Hist) == 0 {
		c := fresh()
		r.verdicts(cs, 0, c, true)
		return nil
	}
	if len(cs.Hist) == 1 {
		set := r.singleSet(cs.Hist[0], cs.Ring == "signer", fresh())
		for i, m := range set {
			c := fresh()
			if err := w.apply(c, cs.Hist[0], m); err != nil {
				return fmt.Errorf("case %d: %v", cs.ID, err)
			}
			r.verdicts(cs, i, c, i == 0 || i == len(set)/2)
		}
		return nil
	}
	for rep := 0; rep < reps; rep++ {
		c := fresh()
		for _, a := range cs.Hist {
			if err := w.apply(c, a, -1); err != nil {
				return fmt.Errorf("case %d: %v", cs.ID, err)
			}
		}
		r.verdicts(cs, rep, c, rep == 0)
	}
	return nil
}

// packageRoundTrip: action.Package --sign, then verification with every keyring.
func (r *runner) packageRoundTrip(keyName string) error {
	w := r.w
	dest := filepath.Join(r.work, "pkg")
	os.RemoveAll(dest)
	os.MkdirAll(dest, 0o755)
	pk := action.NewPackage()
	pk.Sign, pk.Key, pk.Keyring, pk.Destination = true, keyName, w.secAll, dest
	var p string
	err, pan := guard(func() error {
		var e error
		p, e = pk.Run(w.chartDir, nil)
		return e
	})
	if err != nil || pan != "" {
		r.emit(Obs{ID: -1, Route: "Package", Expect: true, Accepted: false, Err: fmt.Sprint(err), Panic: pan, Ring: keyName})
		return nil
	}
	for ring, file := range w.ringFile {
		arch, _ := os.ReadFile(p)
		var v *provenance.Verification
		err, pan := guard(func() error {
			var e error
			v, e = downloader.VerifyChart(p, file)
			return e
		})
		expect := ring == "signer" || ring == "both"
		o := Obs{ID: -1, Route: "Package+VerifyChart", Ring: ring, Expect: expect, Accepted: err == nil && pan == "", Panic: pan,
			Muts: []string{"packaged and signed by action.Package with key " + keyName}}
		if err != nil {
			o.Err = err.Error()
		}
		o.HashOK = o.Accepted && v != nil && v.FileHash == "sha256:"+sha(arch) && v.FileName == filepath.Base(p)
		r.emit(o)
	}
	return nil
}

// cmdRun: hv_misc prov-run -cases cases.ndjson -out obs.ndjson -seed S -reps N
func cmdRun(args []string) error {
	fs := flag.NewFlagSet("prov-run", flag.ExitOnError)
	casesF := fs.String("cases", "", "cases NDJSON (TLC export)")
	outF := fs.String("out", "", "observations NDJSON")
	seed := fs.Int64("seed", 1, "seed")
	reps := fs.Int("reps", 3, "concrete realisations of every multi-step case")
	tmp := fs.String("tmp", "", "scratch directory")
	allBits := fs.Bool("all-bits", false, "flip every bit of the archive, not only the first / last 64 bytes and samples")
	fs.Parse(args)
	if *tmp == "" {
		*tmp, _ = os.MkdirTemp("", "c17")
	}
	os.RemoveAll(*tmp)
	w, err := newWorld(filepath.Join(*tmp, "world"), *seed)
	if err != nil {
		return err
	}
	f, err := os.Open(*casesF)
	if err != nil {
		return err
	}
	defer f.Close()
	out, err := os.Create(*outF)
	if err != nil {
		return err
	}
	defer out.Close()
	r := &runner{allBits: *allBits, seed: *seed, w: w, out: bufio.NewWriterSize(out, 1<<20), work: filepath.Join(*tmp, "work")}
	defer r.out.Flush()
	os.MkdirAll(r.work, 0o755)
	os.Setenv("HELM_CACHE_HOME", filepath.Join(*tmp, "helm-cache")) // FindChartInRepoURL keeps the fetched index there
	if r.srv, err = startFileServer(); err != nil {
		return err
	}
	if err := r.packageRoundTrip(fmt.Sprintf("C17 signer %d", *seed)); err != nil {
		return err
	}
	sc := bufio.NewScanner(f)
	sc.Buffer(make([]byte, 1<<20), 1<<24)
	n := 0
	for sc.Scan() {
		if len(bytes.TrimSpace(sc.Bytes())) == 0 {
			continue
		}
		var cs Case
		if err := json.Unmarshal(sc.Bytes(), &cs); err != nil {
			return err
		}
		if err := r.runCase(cs, *reps); err != nil {
			return err
		}
		n++
	}
	fmt.Fprintf(os.Stderr, "prov-run: %d cases, %d verdicts\n", n, r.n)
	return nil
}
