// Package render is the Go side of the render family (properties C05 and C08): it turns the
// abstract cases enumerated by TLC from spec/RenderCases.tla into real charts, observes the real
// loader / engine / action.Install / releaseutil / kube.Client code on them and writes the
// observations as NDJSON for the TLA+ monitors spec/RenderObs.tla and spec/BatchObs.tla.
package render

// PathName is the template path universe of spec/RenderBase.tla; the index+1 of a name is its
// "rank". RenderObs checks that sort.Strings agrees with this table.
var PathName = []string{
	"p/charts/s1/templates/A.yaml",
	"p/charts/s1/templates/NOTES.txt",
	"p/charts/s1/templates/_h.tpl",
	"p/charts/s1/templates/_jobs/m.yaml",
	"p/charts/s1/templates/a.yaml",
	"p/charts/s1/templates/b.yaml",
	"p/charts/s1/templates/sub/NOTES.txt",
	"p/charts/s2/templates/NOTES.txt",
	"p/charts/s2/templates/_h.tpl",
	"p/charts/s2/templates/a.yaml",
	"p/templates/A.yaml",
	"p/templates/NOTES.txt",
	"p/templates/_h.tpl",
	"p/templates/_jobs/m.yaml",
	"p/templates/_z.tpl",
	"p/templates/a.yaml",
	"p/templates/b.yaml",
	"p/templates/c.yaml",
	"p/templates/sub/NOTES.txt",
}

var PathChart = []string{"s1", "s1", "s1", "s1", "s1", "s1", "s1", "s2", "s2", "s2", "p", "p", "p", "p", "p", "p", "p", "p", "p"}

// ranks used by the concretiser (names as in RenderBase.tla)
const (
	RankS1N  = 2
	RankS1SN = 7
	RankPN   = 12
	RankPH   = 13
	RankPSN  = 19
)

// NoteText mirrors NoteText of RenderBase.tla.
func NoteText(rank int) string {
	switch rank {
	case RankPSN:
		return "status: N-p-sub"
	case RankS1SN:
		return "N-s1-sub: [not yaml"
	}
	return "N-" + PathChart[rank-1]
}

func RankOf(name string) int {
	for i, n := range PathName {
		if n == name {
			return i + 1
		}
	}
	return 0
}

// Doc is one YAML document of a template file: kind, class (what its hook annotation looks like,
// or blank / comment) and the program computing its payload.
type Doc struct {
	K string `json:"k"`
	C string `json:"c"`
	G string `json:"g"`
}

type File struct {
	P    int   `json:"p"`
	Docs []Doc `json:"docs"`
}

// Case is an input of spec/Render.tla (see RenderBase.tla for the meaning of the fields).
type Case struct {
	Fam      string   `json:"fam"`
	Files    []File   `json:"files"`
	Parts    []int    `json:"parts"`
	Notes    []int    `json:"notes"`
	Subs     []string `json:"subs"`
	Crds     []string `json:"crds"`
	Decl     string   `json:"decl"`
	SubNotes bool     `json:"subNotes"`
	DNS      bool     `json:"dns"`
	Schema   string   `json:"schema"`
	SchemaAt string   `json:"schemaAt"`
}

// Fmt is the concrete spelling drawn for a case (not part of the abstract input).
type Fmt struct {
	CRLF     bool `json:"crlf"`
	Sep      int  `json:"sep"`
	LeadSep  bool `json:"leadSep"`
	TrailSep bool `json:"trailSep"`
	NoEOL    bool `json:"noEol"`
}

// CaseLine is one line of cases_*.ndjson (exp etc. are carried through untouched).
type CaseLine struct {
	ID   string `json:"id"`
	Case Case   `json:"case"`
	Fmt  *Fmt   `json:"fmt,omitempty"`
	// Refined is set once the flavours / extra documents have been drawn (replay files carry it)
	Refined bool `json:"refined,omitempty"`
}

// ManEntry is one document found in Release.Manifest.
type ManEntry struct {
	P    int    `json:"p"`
	I    int    `json:"i"`
	V    string `json:"v"`
	Same bool   `json:"same"`
}

// HookEntry is one element of Release.Hooks.
type HookEntry struct {
	P    int      `json:"p"`
	I    int      `json:"i"`
	V    string   `json:"v"`
	Same bool     `json:"same"`
	Ev   []string `json:"ev"`
	W    int      `json:"w"`
	Pol  []string `json:"pol"`
}

// Obs is what the real code showed for one case.
type Obs struct {
	Runs int `json:"runs"` // renders performed (all variants, this process and children)
	// number of distinct values seen over all renders, per component
	DManifest int `json:"dManifest"` // Release.Manifest without the CRD chunks
	DHooks    int `json:"dHooks"`
	DNotes    int `json:"dNotes"`
	DCrds     int `json:"dCrds"` // CRD chunks of the IncludeCRDs renders
	// the same with the chunks that belong to one chart brought into sorted order first
	DCrdsCanon int `json:"dCrdsCanon"`
	DEngine   int `json:"dEngine"`
	DErr      int `json:"dErr"`
	DErrText  int `json:"dErrText"` // distinct error messages (which file is blamed is part of the outcome)
	// first render, parsed
	Err      string      `json:"err"` // none | parse | exec | schema | other
	ErrText  string      `json:"errText"`
	ErrAt    int         `json:"errAt"` // rank of the template file the error message names (0 = none)
	// same-object renders (one loaded *chart.Chart rendered again and again, also concurrently) and the render
	// through a cluster-connected Configuration (--dry-run=server) equal the first fresh client-only render
	ReuseSame bool   `json:"reuseSame"`
	RouteSame bool   `json:"routeSame"`
	ReuseDiff string `json:"reuseDiff"`
	// a second client-only render through ONE action.Configuration whose first render carried --kube-version /
	// --api-versions equals a render through a fresh Configuration
	CfgReuseSame bool   `json:"cfgReuseSame"`
	CfgReuseDiff string `json:"cfgReuseDiff"`
	// overlapping client-only renders, each with its own Configuration and exactly one --api-versions entry, see
	// their own entry and nobody else's
	CapsConcSame bool   `json:"capsConcSame"`
	CapsConcDiff string `json:"capsConcDiff"`
	// the command-line routes (helm template / install / upgrade / upgrade --install through pkg/cmd, unrelated flags set)
	// record the documents of the SDK render
	CLISame bool   `json:"cliSame"`
	CLIDiff string `json:"cliDiff"`
	// a dry run with DisableHooks (--no-hooks), client-only and through a cluster connection, equals the plain one:
	// Release.Hooks still lists every hook document
	NoHooksSame bool   `json:"noHooksSame"`
	NoHooksDiff string `json:"noHooksDiff"`
	// schema family: requests the harness' loopback HTTP listener received while this case was validated
	HTTPHits int `json:"httpHits"`
	RouteDiff string `json:"routeDiff"`
	Manifest []ManEntry  `json:"manifest"`
	Hooks    []HookEntry `json:"hooks"`
	Notes    string      `json:"notes"`
	Crds     []string    `json:"crds"`
	Engine   []int       `json:"engine"` // ranks of the keys of engine.Render's result, sorted
	// IncludeCRDs must not change anything but add the CRD chunks
	CrdBodySame bool `json:"crdBodySame"`
	// all distinct notes texts / CRD orders seen (for the report)
	NotesSeen []string   `json:"notesSeen"`
	CrdsSeen  [][]string `json:"crdsSeen"`
	// schema family: outcome (accept | reject | error) with the canary file absent / "str" / "int"
	Schema []string `json:"schema"`
	// uninstall: kinds of the DELETE requests in arrival order
	Uninst []string `json:"uninst"`
	// error of the real install / uninstall on the simulated cluster ("" = none, or not tried)
	UninstErr string `json:"uninstErr"`
}

type ObsLine struct {
	ID   string `json:"id"`
	Case Case   `json:"case"`
	Fmt  Fmt    `json:"fmt"`
	Obs  Obs    `json:"obs"`
}
