package render

import (
	"crypto/sha1"
	"encoding/hex"
	"encoding/json"
	"fmt"
	"math/rand"
	"os"
	"path/filepath"
	"regexp"
	"sort"
	"strconv"
	"strings"
	"sync"

	"helm.sh/helm/v4/pkg/action"
	chart "helm.sh/helm/v4/pkg/chart/v2"
	"helm.sh/helm/v4/pkg/chart/v2/loader"
	chartutil "helm.sh/helm/v4/pkg/chart/v2/util"
	"helm.sh/helm/v4/pkg/engine"
	release "helm.sh/helm/v4/pkg/release/v1"
)

// One is what a single render of a case showed.
type One struct {
	Err      string
	ErrText  string
	ErrAt    int
	Body     string // Release.Manifest without CRD chunks
	Crds     []string
	CrdPart  string // the CRD chunks, verbatim
	CrdCanon string // the CRD chunks with the chunks of one chart in sorted order
	Hooks    string // canonical JSON of Release.Hooks
	Notes    string
	Engine   string // canonical form of engine.Render's result
	EngKeys  []int
	Manifest []ManEntry
	HookList []HookEntry
}

// Digests is the comparable part of One (what children report back).
type Digests struct {
	ID     string `json:"id"`
	Err    string `json:"err"`
	Body   string `json:"body"`
	Crd    string `json:"crd"`
	CrdCanon string `json:"crdCanon"`
	Hooks  string `json:"hooks"`
	Notes  string `json:"notes"`
	Engine string `json:"engine"`
	Incl   bool   `json:"incl"`
}

func dig(s string) string {
	h := sha1.Sum([]byte(s))
	return hex.EncodeToString(h[:8])
}

func classifyErr(err error) string {
	if err == nil {
		return "none"
	}
	s := err.Error()
	switch {
	case strings.Contains(s, "values don't meet the specifications of the schema"):
		return "schema"
	case strings.Contains(s, "parse error"):
		return "parse"
	case strings.Contains(s, "error calling include"), strings.Contains(s, "no template"), strings.Contains(s, "error calling tpl"),
		strings.Contains(s, "execution error"):
		return "exec"
	}
	return "other"
}

// Materialised is a case written out once: in memory, as a directory and as an archive.
type Materialised struct {
	Files []*loader.BufferedFile
	Dir   string // <tmp>/p  ("" if not written)
	Tgz   string
	Src   map[[2]int]string // trimmed source text of every LIT document
	Case  Case
}

func Materialise(c Case, f Fmt, h Host, tmp string, onDisk bool) (*Materialised, error) {
	m := &Materialised{Files: ChartFiles(c, f, h), Src: map[[2]int]string{}, Case: c}
	for _, fl := range c.Files {
		for i, d := range fl.Docs {
			if d.G == "LIT" {
				t := DocText(fl.P, i+1, d, h)
				if f.CRLF {
					t = strings.ReplaceAll(t, "\n", "\r\n")
				}
				m.Src[[2]int{fl.P, i + 1}] = strings.TrimSpace(t)
			}
		}
	}
	if !onDisk {
		return m, nil
	}
	m.Dir = filepath.Join(tmp, "p")
	for _, bf := range m.Files {
		p := filepath.Join(m.Dir, bf.Name)
		if err := os.MkdirAll(filepath.Dir(p), 0o755); err != nil {
			return nil, err
		}
		if err := os.WriteFile(p, bf.Data, 0o644); err != nil {
			return nil, err
		}
	}
	ch, err := loader.LoadDir(m.Dir)
	if err != nil {
		return nil, fmt.Errorf("load dir: %w", err)
	}
	tgz, err := chartutil.Save(ch, tmp)
	if err != nil {
		return nil, fmt.Errorf("save: %w", err)
	}
	m.Tgz = tgz
	return m, nil
}

// Load loads the chart afresh in one of the three ways.
func (m *Materialised) Load(mode string, r *rand.Rand) (*chart.Chart, error) {
	switch mode {
	case "dir":
		return loader.LoadDir(m.Dir)
	case "tgz":
		return loader.LoadFile(m.Tgz)
	}
	return loader.LoadFiles(Shuffled(m.Files, r))
}

var chunkRe = regexp.MustCompile(`(?m)^---\r?\n# Source: (.*)\r?\n`)
var nameRe = regexp.MustCompile(`(?m)^  name: d-(\d+)-(\d+)\s*$`)
var commentRe = regexp.MustCompile(`(?m)^# c-(\d+)-(\d+)\s*$`)
var payloadRe = regexp.MustCompile(`(?m)^  v: "(.*)"\s*$`)

// stripMarkers removes leading lines that belong to a separator rather than to the document
// ("---" document-start markers, blank lines).
func stripMarkers(content string) string {
	for {
		t := strings.TrimLeft(content, " \t\r\n")
		if strings.HasPrefix(t, "---") {
			nl := strings.IndexByte(t, '\n')
			first := t
			if nl >= 0 {
				first = t[:nl]
			}
			if strings.TrimSpace(first) == "---" {
				if nl < 0 {
					return ""
				}
				content = t[nl+1:]
				continue
			}
		}
		return t
	}
}

// emptyDoc: nothing but comments, document markers and white space (parses to no mapping at all).
func emptyDoc(content string) bool {
	for _, ln := range strings.Split(content, "\n") {
		t := strings.TrimSpace(ln)
		if t == "" || strings.HasPrefix(t, "#") || t == "---" {
			continue
		}
		return false
	}
	return true
}

// identify maps the text of an output document back to the input document it came from.
func (m *Materialised) identify(path, content string) ManEntry {
	e := ManEntry{V: "?"}
	content = strings.TrimSpace(stripMarkers(content))
	rank := RankOf(path)
	var mm []string
	isComment := false
	if mm = nameRe.FindStringSubmatch(content); mm == nil {
		if mm = commentRe.FindStringSubmatch(content); mm != nil {
			isComment = true
		}
	}
	if mm == nil {
		return e
	}
	p, _ := strconv.Atoi(mm[1])
	i, _ := strconv.Atoi(mm[2])
	if p != rank { // claims to come from another file than the "# Source:" line says
		return e
	}
	e.P, e.I = p, i
	if isComment {
		e.V = ""
	} else if pm := payloadRe.FindStringSubmatch(content); pm != nil {
		e.V = pm[1]
	}
	if src, ok := m.Src[[2]int{p, i}]; ok {
		e.Same = content == src
	} else {
		e.Same = true // payload computed by a program: judged through V
	}
	return e
}

// parseManifest splits Release.Manifest at the "# Source:" markers renderResources writes.
func (m *Materialised) parseManifest(man string) (entries []ManEntry, crds []string, body, crdPart, crdCanon string) {
	locs := chunkRe.FindAllStringSubmatchIndex(man, -1)
	var bodySB, crdSB strings.Builder
	var crdChunks [][2]string
	if len(locs) == 0 && strings.TrimSpace(man) != "" {
		entries = append(entries, ManEntry{V: "?"})
	}
	for k, loc := range locs {
		end := len(man)
		if k+1 < len(locs) {
			end = locs[k+1][0]
		}
		path := man[loc[2]:loc[3]]
		content := strings.TrimSuffix(man[loc[1]:end], "\n")
		if strings.Contains(path, "/crds/") {
			ch := "p"
			if strings.Contains(path, "charts/s1/") {
				ch = "s1"
			} else if strings.Contains(path, "charts/s2/") {
				ch = "s2"
			}
			if len(crds) == 0 || crds[len(crds)-1] != ch { // one entry per chart (consecutive chunks of one chart)
				crds = append(crds, ch)
			}
			crdSB.WriteString(man[loc[0]:end])
			crdChunks = append(crdChunks, [2]string{ch, man[loc[0]:end]})
			continue
		}
		bodySB.WriteString(man[loc[0]:end])
		if emptyDoc(content) {
			continue // an empty YAML document (comments / markers only): the property does not speak about it
		}
		entries = append(entries, m.identify(path, content))
	}
	// canonical form of the CRD part: within each run of chunks of one chart, the chunks in sorted order
	var canon strings.Builder
	for i := 0; i < len(crdChunks); {
		j := i
		var run []string
		for j < len(crdChunks) && crdChunks[j][0] == crdChunks[i][0] {
			run = append(run, crdChunks[j][1])
			j++
		}
		sort.Strings(run)
		canon.WriteString(strings.Join(run, ""))
		i = j
	}
	return entries, crds, bodySB.String(), crdSB.String(), canon.String()
}

func (m *Materialised) parseHooks(hs []*release.Hook) ([]HookEntry, string) {
	out := make([]HookEntry, 0, len(hs))
	type canon struct {
		Name, Kind, Path, Manifest string
		Events                     []string
		Weight                     int
		Pol, Log                   []string
	}
	cs := make([]canon, 0, len(hs))
	for _, h := range hs {
		e := m.identify(h.Path, h.Manifest)
		he := HookEntry{P: e.P, I: e.I, V: e.V, Same: e.Same, W: h.Weight, Ev: []string{}, Pol: []string{}}
		c := canon{Name: h.Name, Kind: h.Kind, Path: h.Path, Manifest: h.Manifest, Weight: h.Weight}
		for _, ev := range h.Events {
			he.Ev = append(he.Ev, string(ev))
			c.Events = append(c.Events, string(ev))
		}
		for _, p := range h.DeletePolicies {
			he.Pol = append(he.Pol, string(p))
			c.Pol = append(c.Pol, string(p))
		}
		for _, p := range h.OutputLogPolicies {
			c.Log = append(c.Log, string(p))
		}
		// the Name / Kind fields of the hook must be those of the document
		if e.P != 0 {
			d := m.Case.docAt(e.P, e.I)
			if d == nil || h.Name != fmt.Sprintf("d-%d-%d", e.P, e.I) || h.Kind != d.K {
				he.Same = false
			}
		}
		out = append(out, he)
		cs = append(cs, c)
	}
	b, _ := json.Marshal(cs)
	return out, string(b)
}

func (c Case) docAt(p, i int) *Doc {
	for _, f := range c.Files {
		if f.P == p && i >= 1 && i <= len(f.Docs) {
			return &f.Docs[i-1]
		}
	}
	return nil
}

func newInstall(c Case, includeCRDs bool) *action.Install {
	in := action.NewInstall(new(action.Configuration))
	in.ClientOnly = true // what `helm template` does: a dry-run install that never talks to a cluster
	in.DryRun = true
	in.Replace = true
	in.ReleaseName = "rel"
	in.Namespace = "ns"
	in.SubNotes = c.SubNotes
	in.EnableDNS = c.DNS
	in.IncludeCRDs = includeCRDs
	return in
}

// RenderOnce loads the chart afresh and observes one dry-run install and one engine.Render.
func (m *Materialised) RenderOnce(mode string, includeCRDs bool, withEngine bool, r *rand.Rand) One {
	var o One
	ch, err := m.Load(mode, r)
	if err != nil {
		o.Err, o.ErrText = "load", err.Error()
		return o
	}
	rel, err := newInstall(m.Case, includeCRDs).Run(ch, map[string]interface{}{})
	o.fill(m, rel, err)
	if withEngine {
		ch2, err := m.Load(mode, r)
		if err == nil {
			o.Engine, o.EngKeys = engineRender(ch2, m.Case)
		}
	}
	return o
}

// errFile finds the template file an error message blames.
func errFile(text string) int {
	best, at := 0, len(text)+1
	for i, n := range PathName {
		if k := strings.Index(text, n); k >= 0 && k < at {
			best, at = i+1, k
		}
	}
	return best
}

// Triple is the comparable outcome of a dry-run install.
func (o One) Triple() string {
	return o.Err + "|" + fmt.Sprint(o.ErrAt) + "|" + dig(o.Body) + "|" + dig(o.Hooks) + "|" + dig(o.Notes)
}

func (o *One) fill(m *Materialised, rel *release.Release, err error) {
	o.Err = classifyErr(err)
	if err != nil {
		o.ErrText = err.Error()
		o.ErrAt = errFile(o.ErrText)
	}
	if rel != nil && os.Getenv("VERIF_DEBUG") != "" {
		fmt.Fprintf(os.Stderr, "MANIFEST %q\nNOTES %q\nERR %v\n", rel.Manifest, rel.Info.Notes, err)
		for _, h := range rel.Hooks {
			fmt.Fprintf(os.Stderr, "HOOK %s %q\n", h.Path, h.Manifest)
		}
	}
	if rel != nil && err == nil {
		o.Manifest, o.Crds, o.Body, o.CrdPart, o.CrdCanon = m.parseManifest(rel.Manifest)
		o.HookList, o.Hooks = m.parseHooks(rel.Hooks)
		o.Notes = rel.Info.Notes
	} else if rel != nil {
		o.Body = rel.Manifest
	}
}

func engineRender(ch *chart.Chart, c Case) (string, []int) {
	vals := map[string]interface{}{}
	if err := chartutil.ProcessDependencies(ch, vals); err != nil {
		return "deperr:" + err.Error(), nil
	}
	opts := chartutil.ReleaseOptions{Name: "rel", Namespace: "ns", Revision: 1, IsInstall: true}
	rv, err := chartutil.ToRenderValues(ch, vals, opts, chartutil.DefaultCapabilities.Copy())
	if err != nil {
		return "valerr:" + classifyErr(err), nil
	}
	out, err := engine.Engine{EnableDNS: c.DNS}.Render(ch, rv)
	if err != nil {
		return "err:" + classifyErr(err), nil
	}
	keys := make([]string, 0, len(out))
	for k := range out {
		keys = append(keys, k)
	}
	sort.Strings(keys)
	var sb strings.Builder
	ranks := []int{}
	for _, k := range keys {
		fmt.Fprintf(&sb, "%q=%q;", k, out[k])
		ranks = append(ranks, RankOf(k))
	}
	sort.Ints(ranks)
	return sb.String(), ranks
}

func (o One) DigestsFor(id string, incl bool) Digests {
	return Digests{ID: id, Err: o.Err, Body: dig(o.Body), Crd: strings.Join(o.Crds, ",") + "|" + dig(o.CrdPart), CrdCanon: dig(o.CrdCanon), Hooks: dig(o.Hooks), Notes: o.Notes, Engine: dig(o.Engine), Incl: incl}
}

// Acc accumulates everything seen for one case over all renders, processes and host states.
type Acc struct {
	mu       sync.Mutex
	Line     CaseLine
	First    *One
	Runs     int
	body     map[string]bool
	hooks    map[string]bool
	notes    map[string]bool
	crd      map[string]bool
	crdCanon map[string]bool
	eng      map[string]bool
	errs     map[string]bool
	errTexts map[string]bool
	reuseDiff, routeDiff string
	cfgDiff, capsDiff    string
	noHooksDiff          string
	cliDiff              string
	HTTPHits             int
	crdsSeen map[string][]string
	bodyIncl map[string]bool
	Schema   []string
	Uninst   []string
	UninstErr string
}

func NewAcc(cl CaseLine) *Acc {
	return &Acc{Line: cl, body: map[string]bool{}, hooks: map[string]bool{}, notes: map[string]bool{}, crd: map[string]bool{}, crdCanon: map[string]bool{},
		eng: map[string]bool{}, errs: map[string]bool{}, errTexts: map[string]bool{}, crdsSeen: map[string][]string{}, bodyIncl: map[string]bool{}}
}

func (a *Acc) AddDigests(d Digests) {
	a.mu.Lock()
	defer a.mu.Unlock()
	a.Runs++
	a.errs[d.Err] = true
	a.hooks[d.Hooks] = true
	a.notes[d.Notes] = true
	if d.Incl {
		a.crd[d.Crd] = true
		a.crdCanon[d.CrdCanon] = true
		a.bodyIncl[d.Body] = true
		cs := strings.SplitN(d.Crd, "|", 2)[0]
		if _, ok := a.crdsSeen[cs]; !ok {
			l := []string{}
			if cs != "" {
				l = strings.Split(cs, ",")
			}
			a.crdsSeen[cs] = l
		}
	} else {
		a.body[d.Body] = true
		if d.Engine != dig("") {
			a.eng[d.Engine] = true
		}
	}
}

func (a *Acc) Add(o One, incl bool) {
	a.mu.Lock()
	if o.ErrText != "" {
		a.errTexts[canonErr(o.ErrText)] = true
	}
	if a.First == nil && !incl {
		oo := o
		a.First = &oo
	}
	a.mu.Unlock()
	a.AddDigests(o.DigestsFor(a.Line.ID, incl))
}

func sortedKeys(m map[string]bool) []string {
	out := make([]string, 0, len(m))
	for k := range m {
		out = append(out, k)
	}
	sort.Strings(out)
	return out
}

// Result folds the accumulated renders into the observation record for the monitor.
func (a *Acc) Result(crdsFirst []string) ObsLine {
	a.mu.Lock()
	defer a.mu.Unlock()
	o := Obs{Runs: a.Runs, DManifest: len(a.body), DHooks: len(a.hooks), DNotes: len(a.notes), DCrds: len(a.crd), DCrdsCanon: len(a.crdCanon),
		DEngine: len(a.eng), DErr: len(a.errs), DErrText: len(a.errTexts), ReuseSame: a.reuseDiff == "", RouteSame: a.routeDiff == "",
		ReuseDiff: a.reuseDiff, RouteDiff: a.routeDiff, CfgReuseSame: a.cfgDiff == "", CfgReuseDiff: a.cfgDiff,
		CLISame: a.cliDiff == "", CLIDiff: a.cliDiff,
		NoHooksSame: a.noHooksDiff == "", NoHooksDiff: a.noHooksDiff,
		CapsConcSame: a.capsDiff == "", CapsConcDiff: a.capsDiff, HTTPHits: a.HTTPHits, Manifest: []ManEntry{}, Hooks: []HookEntry{}, Crds: []string{}, Engine: []int{},
		NotesSeen: []string{}, CrdsSeen: [][]string{}, Schema: a.Schema, Uninst: a.Uninst, UninstErr: a.UninstErr, Err: "none"}
	if a.First != nil {
		f := a.First
		o.Err, o.ErrText, o.Notes, o.ErrAt = f.Err, f.ErrText, f.Notes, f.ErrAt
		if len(o.ErrText) > 300 {
			o.ErrText = o.ErrText[:300]
		}
		if f.Manifest != nil {
			o.Manifest = f.Manifest
		}
		if f.HookList != nil {
			o.Hooks = f.HookList
		}
		if f.EngKeys != nil {
			o.Engine = f.EngKeys
		}
	}
	if crdsFirst != nil {
		o.Crds = crdsFirst
	}
	// IncludeCRDs only adds chunks: the bodies of the two kinds of render are the same set
	o.CrdBodySame = true
	for b := range a.bodyIncl {
		if !a.body[b] {
			o.CrdBodySame = false
		}
	}
	for _, n := range sortedKeys(a.notes) {
		if len(o.NotesSeen) < 8 {
			o.NotesSeen = append(o.NotesSeen, n)
		}
	}
	ck := make([]string, 0)
	for k := range a.crdsSeen {
		ck = append(ck, k)
	}
	sort.Strings(ck)
	for _, k := range ck {
		o.CrdsSeen = append(o.CrdsSeen, a.crdsSeen[k])
	}
	if o.Schema == nil {
		o.Schema = []string{}
	}
	if o.Uninst == nil {
		o.Uninst = []string{}
	}
	f := Fmt{}
	if a.Line.Fmt != nil {
		f = *a.Line.Fmt
	}
	return ObsLine{ID: a.Line.ID, Case: NormCase(a.Line.Case), Fmt: f, Obs: o}
}

// NormCase makes every list non-nil (TLC cannot read JSON null) and fills defaults.
func NormCase(c Case) Case {
	if c.Files == nil {
		c.Files = []File{}
	}
	for i := range c.Files {
		if c.Files[i].Docs == nil {
			c.Files[i].Docs = []Doc{}
		}
	}
	if c.Parts == nil {
		c.Parts = []int{}
	}
	if c.Notes == nil {
		c.Notes = []int{}
	}
	if c.Subs == nil {
		c.Subs = []string{}
	}
	if c.Crds == nil {
		c.Crds = []string{}
	}
	if c.Decl == "" {
		c.Decl = "none"
	}
	if c.Schema == "" {
		c.Schema = "none"
	}
	if c.SchemaAt == "" {
		c.SchemaAt = "p"
	}
	return c
}

// Plan says how hard one case is exercised.
type Plan struct {
	N        int      // sequential renders (each with a freshly loaded chart)
	M        int      // concurrent renders
	Modes    []string // ways of loading, rotated over the sequential renders
	Engine   bool     // also observe engine.Render directly
	InclCRDs bool     // also render with IncludeCRDs
}

// ObserveInProcess runs the sequential and concurrent renders of one case in this process.
func ObserveInProcess(a *Acc, m *Materialised, pl Plan, seed int64) (crdsFirst []string) {
	r := rngFor(seed, "run:"+a.Line.ID)
	for k := 0; k < pl.N; k++ {
		mode := pl.Modes[k%len(pl.Modes)]
		a.Add(m.RenderOnce(mode, false, pl.Engine, r), false)
		if pl.InclCRDs {
			o := m.RenderOnce(mode, true, false, r)
			if crdsFirst == nil {
				crdsFirst = o.Crds
				if crdsFirst == nil {
					crdsFirst = []string{}
				}
			}
			a.Add(o, true)
		}
	}
	if pl.M > 0 {
		var wg sync.WaitGroup
		// concurrent dry-run installs, each on its own freshly loaded chart ...
		for g := 0; g < pl.M; g++ {
			wg.Add(1)
			rr := rand.New(rand.NewSource(r.Int63()))
			go func(g int) {
				defer wg.Done()
				a.Add(m.RenderOnce(pl.Modes[g%len(pl.Modes)], false, false, rr), false)
			}(g)
		}
		// ... and concurrent engine.Render calls on ONE shared chart object
		// (not where a template mutates values: if a defect made renders share them, the data race would
		// kill the harness instead of yielding a verdict; ObserveReuse covers those cases sequentially)
		if pl.Engine && !m.Case.uses("MUT") {
			if ch, err := m.Load("files", r); err == nil {
				vals := map[string]interface{}{}
				if chartutil.ProcessDependencies(ch, vals) == nil {
					for g := 0; g < pl.M; g++ {
						wg.Add(1)
						go func() {
							defer wg.Done()
							opts := chartutil.ReleaseOptions{Name: "rel", Namespace: "ns", Revision: 1, IsInstall: true}
							rv, err := chartutil.ToRenderValues(ch, vals, opts, chartutil.DefaultCapabilities.Copy())
							if err != nil {
								return
							}
							out, err := engine.Engine{EnableDNS: m.Case.DNS}.Render(ch, rv)
							s := ""
							if err != nil {
								s = "err:" + classifyErr(err)
							} else {
								keys := make([]string, 0, len(out))
								for k := range out {
									keys = append(keys, k)
								}
								sort.Strings(keys)
								var sb strings.Builder
								for _, k := range keys {
									fmt.Fprintf(&sb, "%q=%q;", k, out[k])
								}
								s = sb.String()
							}
							a.mu.Lock()
							a.eng[dig(s)] = true
							a.Runs++
							a.mu.Unlock()
						}()
					}
				}
			}
		}
		wg.Wait()
	}
	return crdsFirst
}

var tmpDirRe = regexp.MustCompile(`/[^ "]*hv_render_[0-9]+`)

// canonErr removes the per-process temporary directory from an error message.
func canonErr(s string) string { return tmpDirRe.ReplaceAllString(s, "<tmp>") }

func (a *Acc) noteDiff(which *string, what string, got, want string) {
	a.mu.Lock()
	if *which == "" {
		*which = what + ": " + got + " instead of " + want
	}
	a.Runs++
	a.mu.Unlock()
}

func (c Case) uses(g string) bool {
	for _, f := range c.Files {
		for _, d := range f.Docs {
			if d.G == g {
				return true
			}
		}
	}
	return false
}

// ObserveReuse renders ONE loaded chart object again and again (what an SDK user, or install followed by upgrade,
// does): n dry-run installs one after the other, then m concurrent engine.Render calls, all on the same
// *chart.Chart. Every one must equal the first render of a freshly loaded chart.
func ObserveReuse(a *Acc, m *Materialised, n, conc int, seed int64) {
	a.mu.Lock()
	first := a.First
	a.mu.Unlock()
	if first == nil || n <= 0 {
		return
	}
	r := rngFor(seed, "reuse:"+a.Line.ID)
	ch, err := m.Load("files", r)
	if err != nil {
		return
	}
	want := first.Triple()
	for k := 0; k < n; k++ {
		var o One
		rel, err := newInstall(m.Case, false).Run(ch, map[string]interface{}{})
		o.fill(m, rel, err)
		if got := o.Triple(); got != want {
			a.noteDiff(&a.reuseDiff, fmt.Sprintf("render %d of the same chart object", k+2), got, want)
		} else {
			a.mu.Lock()
			a.Runs++
			a.mu.Unlock()
		}
	}
	// concurrent engine.Render on the same object (not where a template mutates values that a defect could
	// share between renders: a data race there would kill the harness instead of yielding a verdict)
	if conc > 0 && first.Engine != "" && !m.Case.uses("MUT") {
		vals := map[string]interface{}{}
		if chartutil.ProcessDependencies(ch, vals) != nil {
			return
		}
		var wg sync.WaitGroup
		for g := 0; g < conc; g++ {
			wg.Add(1)
			go func() {
				defer wg.Done()
				opts := chartutil.ReleaseOptions{Name: "rel", Namespace: "ns", Revision: 1, IsInstall: true}
				rv, err := chartutil.ToRenderValues(ch, vals, opts, chartutil.DefaultCapabilities.Copy())
				if err != nil {
					return
				}
				out, err := engine.Engine{EnableDNS: m.Case.DNS}.Render(ch, rv)
				s := canonEngine(out, err)
				if s != first.Engine {
					a.noteDiff(&a.reuseDiff, "concurrent engine.Render on the same chart object", dig(s), dig(first.Engine))
				}
			}()
		}
		wg.Wait()
	}
}

func canonEngine(out map[string]string, err error) string {
	if err != nil {
		return "err:" + classifyErr(err)
	}
	keys := make([]string, 0, len(out))
	for k := range out {
		keys = append(keys, k)
	}
	sort.Strings(keys)
	var sb strings.Builder
	for _, k := range keys {
		fmt.Fprintf(&sb, "%q=%q;", k, out[k])
	}
	return sb.String()
}

const extraAPI = "verif.example/v9" // the API version the CAPA program asks for

func (m *Materialised) capaPayloads(o One) []string {
	var out []string
	for _, e := range o.Manifest {
		if d := m.Case.docAt(e.P, e.I); d != nil && d.G == "CAPA" {
			out = append(out, e.V)
		}
	}
	for _, e := range o.HookList {
		if d := m.Case.docAt(e.P, e.I); d != nil && d.G == "CAPA" {
			out = append(out, e.V)
		}
	}
	return out
}

// ObserveCaps exercises the capability options of a client-only render (what `helm template --kube-version
// --api-versions` sets) on charts that consult .Capabilities:
//  1. ONE action.Configuration used for two renders, the first with --kube-version / --api-versions, the second
//     without: the second must equal the render through a fresh Configuration;
//  2. overlapping renders, each with its own Configuration and exactly ONE --api-versions entry: the renders that
//     carry the entry the template asks for see it ("true"), the others equal the plain render.
func ObserveCaps(a *Acc, m *Materialised, rounds, conc int, seed int64) {
	if !m.Case.uses("CAPA") && !m.Case.uses("CAPV") {
		return
	}
	a.mu.Lock()
	first := a.First
	a.mu.Unlock()
	if first == nil || first.Err != "none" {
		return
	}
	r := rngFor(seed, "caps:"+a.Line.ID)
	want := first.Triple()
	run := func(cfg *action.Configuration, kv string, apis []string) One {
		var o One
		ch, err := m.Load("files", rand.New(rand.NewSource(r.Int63())))
		if err != nil {
			o.Err = "load"
			return o
		}
		in := action.NewInstall(cfg)
		in.ClientOnly, in.DryRun, in.Replace, in.ReleaseName, in.Namespace = true, true, true, "rel", "ns"
		in.SubNotes, in.EnableDNS = m.Case.SubNotes, m.Case.DNS
		if kv != "" {
			if v, err := chartutil.ParseKubeVersion(kv); err == nil {
				in.KubeVersion = v
			}
		}
		in.APIVersions = chartutil.VersionSet(apis)
		rel, err := in.Run(ch, map[string]interface{}{})
		o.fill(m, rel, err)
		return o
	}
	// 1. one Configuration, two renders
	cfg := new(action.Configuration)
	_ = run(cfg, "v1.99.0", []string{extraAPI, "verif.example/v8"})
	second := run(cfg, "", nil)
	if got := second.Triple(); got != want {
		a.noteDiff(&a.cfgDiff, fmt.Sprintf("second render through the same Configuration (first had --kube-version v1.99.0 --api-versions %s): CAPA payloads %v", extraAPI, m.capaPayloads(second)), got, want)
	}
	if !m.Case.uses("CAPA") || conc <= 0 {
		return
	}
	// 2. overlapping renders with exactly one --api-versions entry each
	withIt := run(new(action.Configuration), "", []string{extraAPI})
	for _, v := range m.capaPayloads(withIt) {
		if v != "true" {
			a.noteDiff(&a.capsDiff, "a render with --api-versions "+extraAPI+" alone", "Has = "+v, "true")
			return
		}
	}
	wantWith := withIt.Triple()
	var mu sync.Mutex // (run draws from r)
	for round := 0; round < rounds; round++ {
		var wg sync.WaitGroup
		for g := 0; g < conc; g++ {
			wg.Add(1)
			mu.Lock()
			chSeed := r.Int63()
			mu.Unlock()
			go func(g int, chSeed int64) {
				defer wg.Done()
				var o One
				ch, err := m.Load("files", rand.New(rand.NewSource(chSeed)))
				if err != nil {
					return
				}
				in := action.NewInstall(new(action.Configuration))
				in.ClientOnly, in.DryRun, in.Replace, in.ReleaseName, in.Namespace = true, true, true, "rel", "ns"
				in.SubNotes, in.EnableDNS = m.Case.SubNotes, m.Case.DNS
				api, exp := extraAPI, wantWith
				if g%2 == 1 {
					api, exp = fmt.Sprintf("verif.example/w%d", g), want
				}
				in.APIVersions = chartutil.VersionSet{api}
				rel, err := in.Run(ch, map[string]interface{}{})
				o.fill(m, rel, err)
				if got := o.Triple(); got != exp {
					a.noteDiff(&a.capsDiff, fmt.Sprintf("overlapping render with --api-versions %s alone: CAPA payloads %v", api, m.capaPayloads(o)), got, exp)
				}
			}(g, chSeed)
		}
		wg.Wait()
	}
}

// ObserveNoHooks: DisableHooks only stops hooks from being EXECUTED; a dry run with it must record the same
// manifest, hook list and notes as one without (client-only, and through a cluster connection with --dry-run=server).
func ObserveNoHooks(a *Acc, m *Materialised, seed int64) {
	a.mu.Lock()
	first := a.First
	a.mu.Unlock()
	if first == nil {
		return
	}
	if len(first.HookList) == 0 { // no hook document: nothing DisableHooks could lose
		return
	}
	r := rngFor(seed, "nohooks:"+a.Line.ID)
	want := first.Triple()
	if ch, err := m.Load("files", r); err == nil {
		in := newInstall(m.Case, false)
		in.DisableHooks = true
		var o One
		rel, err := in.Run(ch, map[string]interface{}{})
		o.fill(m, rel, err)
		if got := o.Triple(); got != want {
			a.noteDiff(&a.noHooksDiff, fmt.Sprintf("client-only dry run with DisableHooks: %d hooks instead of %d", len(o.HookList), len(first.HookList)), got, want)
		}
	}
	// (the route through the simulated API server costs a multiple of a client-only render: every fourth such case)
	if m.Case.uses("LOOK") || m.Case.uses("DNS") && m.Case.DNS || r.Intn(4) != 0 {
		return
	}
	if ch, err := m.Load("files", r); err == nil {
		o := routeRender(m, ch, true)
		if got := o.Triple(); got != want {
			a.noteDiff(&a.noHooksDiff, fmt.Sprintf("--dry-run=server with DisableHooks: %d hooks instead of %d", len(o.HookList), len(first.HookList)), got, want)
		}
	}
}
