package render

import (
	"encoding/json"
	"io"
	"net/http"
	"os"
	chart "helm.sh/helm/v4/pkg/chart/v2"
	"bytes"
	"fmt"
	"strings"
	"sync"
	"time"

	"helm.sh/helm/v4/pkg/action"
	"helm.sh/helm/v4/pkg/chart/v2/loader"
	chartutil "helm.sh/helm/v4/pkg/chart/v2/util"
	"helm.sh/helm/v4/pkg/kube"
	"helm.sh/helm/v4/pkg/storage"
	"helm.sh/helm/v4/pkg/storage/driver"

	"verif/harness/simcluster"
)

// BatchCase is one behaviour exported by TLC from spec/Batch.tla: the kind of every resource of
// the (kind-sorted) list, the creates the server rejects, and the order in which the server lets
// the requests complete.
type BatchCase struct {
	ID     string `json:"id"`
	Kinds  []int  `json:"kinds"`
	Fail   []int  `json:"fail"`
	Order  []int  `json:"order"`
	Method string `json:"method"` // POST (kube.Client.Create) | DELETE (kube.Client.Delete)
}

type BatchEvent struct {
	S int    `json:"s"` // sequence number taken under the gate's lock
	E string `json:"e"` // arr | dep
	I int    `json:"i"` // resource index (1-based position in the kind-sorted list)
}

type BatchObs struct {
	ID       string       `json:"id"`
	Kinds    []int        `json:"kinds"`
	Fail     []int        `json:"fail"`
	Order    []int        `json:"order"`
	Method   string       `json:"method"`
	Events   []BatchEvent `json:"events"`
	Built    []int        `json:"built"`    // kind of every element of the ResourceList the real Build returned
	Returned bool         `json:"returned"` // the call came back (no deadlock)
	Err      bool         `json:"err"`
	NErr     int          `json:"nerr"`
	Stalled  bool         `json:"stalled"` // the TLC-chosen order could not be realised (not a verdict)
	Note     string       `json:"note"`
}

var batchKinds = []string{"", "Secret", "Deployment", "Widget"} // kind number -> a kind in install order

const batchNS = "ns"

// gate holds every create / delete response until the scheduler releases it.
type gate struct {
	mu      sync.Mutex
	seq     int
	events  []BatchEvent
	arrived map[int]bool
	release map[int]chan struct{}
	fail    map[int]bool
	method  string
	cond    *sync.Cond
}

func newGate(n int, fail []int, method string) *gate {
	g := &gate{arrived: map[int]bool{}, release: map[int]chan struct{}{}, fail: map[int]bool{}, method: method}
	g.cond = sync.NewCond(&g.mu)
	for i := 1; i <= n; i++ {
		g.release[i] = make(chan struct{})
	}
	for _, f := range fail {
		g.fail[f] = true
	}
	return g
}

func (g *gate) hook(_ int, method string, key simcluster.Key, storageReq bool) (int, func(int)) {
	if storageReq || method != g.method || !strings.HasPrefix(key.Name, "r") {
		return 0, nil
	}
	var i int
	if _, err := fmt.Sscanf(key.Name, "r%d", &i); err != nil || g.release[i] == nil {
		return 0, nil
	}
	g.mu.Lock()
	g.seq++
	g.events = append(g.events, BatchEvent{S: g.seq, E: "arr", I: i})
	g.arrived[i] = true
	g.cond.Broadcast()
	g.mu.Unlock()
	reject := 0
	if g.fail[i] {
		reject = 403
	}
	return reject, func(int) {
		<-g.release[i] // the response is held here
		g.mu.Lock()
		g.seq++
		g.events = append(g.events, BatchEvent{S: g.seq, E: "dep", I: i})
		g.mu.Unlock()
	}
}

// waitArrived waits (bounded) until request i has arrived.
func (g *gate) waitArrived(i int, d time.Duration) bool {
	deadline := time.Now().Add(d)
	g.mu.Lock()
	defer g.mu.Unlock()
	for !g.arrived[i] {
		if time.Now().After(deadline) {
			return false
		}
		g.mu.Unlock()
		time.Sleep(100 * time.Microsecond)
		g.mu.Lock()
	}
	return true
}

// batchManifest renders (with the real engine and SortManifests) a chart whose template lists the
// resources in REVERSE kind order; the rendered manifest must come out kind-sorted.
func batchManifest(kinds []int) (string, error) {
	var docs []string
	for k := 3; k >= 1; k-- {
		for i, kk := range kinds {
			if kk != k {
				continue
			}
			api := "v1"
			if batchKinds[k] == "Deployment" {
				api = "apps/v1"
			} else if batchKinds[k] == "Widget" {
				api = "verif.example/v1"
			}
			docs = append(docs, fmt.Sprintf("apiVersion: %s\nkind: %s\nmetadata:\n  name: r%d\nspec:\n  v: x\n", api, batchKinds[k], i+1))
		}
	}
	files := []*loader.BufferedFile{
		{Name: "Chart.yaml", Data: []byte("apiVersion: v2\nname: b\nversion: 0.1.0\n")},
		{Name: "templates/all.yaml", Data: []byte(strings.Join(docs, "---\n"))},
	}
	ch, err := loader.LoadFiles(files)
	if err != nil {
		return "", err
	}
	in := action.NewInstall(new(action.Configuration))
	in.ClientOnly, in.DryRun, in.Replace, in.ReleaseName, in.Namespace = true, true, true, "rel", batchNS
	rel, err := in.Run(ch, map[string]interface{}{})
	if err != nil {
		return "", err
	}
	return rel.Manifest, nil
}

func kindNumber(kind string) int {
	for i, k := range batchKinds {
		if k == kind && i > 0 {
			return i
		}
	}
	return 0
}

// RunBatch replays one TLC behaviour against the real kube.Client over the simulated API server.
func RunBatch(bc BatchCase, grace time.Duration) BatchObs {
	obs := BatchObs{ID: bc.ID, Kinds: bc.Kinds, Fail: bc.Fail, Order: bc.Order, Method: bc.Method, Events: []BatchEvent{}, Built: []int{}}
	if obs.Fail == nil {
		obs.Fail = []int{}
	}
	n := len(bc.Kinds)
	manifest, err := batchManifest(bc.Kinds)
	if err != nil {
		obs.Note = "render: " + err.Error()
		return obs
	}
	sim := simcluster.New()
	g := newGate(n, bc.Fail, bc.Method)
	f := &simcluster.Factory{RT: sim.Transport(1), Namespace: batchNS}
	kc := &kube.Client{Factory: f, Namespace: batchNS}
	resources, err := kc.Build(bytes.NewBufferString(manifest), false)
	if err != nil {
		obs.Note = "build: " + err.Error()
		return obs
	}
	for _, info := range resources {
		obs.Built = append(obs.Built, kindNumber(info.Mapping.GroupVersionKind.Kind))
	}
	if bc.Method == "DELETE" {
		// the objects exist beforehand
		if _, err := kc.Create(resources); err != nil {
			obs.Note = "pre-create: " + err.Error()
			return obs
		}
	}
	sim.Hook = g.hook

	type result struct {
		err  bool
		nerr int
	}
	done := make(chan result, 1)
	go func() {
		if bc.Method == "DELETE" {
			_, errs := kc.Delete(resources)
			done <- result{len(errs) > 0, len(errs)}
			return
		}
		_, err := kc.Create(resources)
		r := result{err: err != nil}
		if err != nil {
			r.nerr = strings.Count(err.Error(), "\n\t* ")
			if r.nerr == 0 {
				r.nerr = 1
			}
		}
		done <- r
	}()

	// the scheduler: let the requests complete in the order TLC chose
	released := map[int]bool{}
	for pos, w := range bc.Order {
		if !g.waitArrived(w, 2*time.Second) {
			obs.Stalled = true
			obs.Note = fmt.Sprintf("request r%d never arrived", w)
			break
		}
		// hold it a little: whatever wrongly does not wait for it gets the chance to show up.
		// The last one of a kind is held longest (nothing else of that kind is outstanding).
		last := pos+1 == len(bc.Order) || bc.Kinds[bc.Order[pos+1]-1] != bc.Kinds[w-1]
		if last {
			time.Sleep(grace)
		} else {
			time.Sleep(grace / 8)
		}
		close(g.release[w])
		released[w] = true
	}
	if obs.Stalled { // let everything go so that the call can end
		for i := 1; i <= n; i++ {
			if !released[i] {
				close(g.release[i])
			}
		}
	}
	select {
	case r := <-done:
		obs.Returned, obs.Err, obs.NErr = true, r.err, r.nerr
	case <-time.After(5 * time.Second):
		obs.Returned = false
	}
	g.mu.Lock()
	obs.Events = append(obs.Events, g.events...)
	g.mu.Unlock()
	sim.Hook = nil
	return obs
}

// ---- uninstall order -----------------------------------------------------------------

// noWait is the real kube.Client with only the waiter replaced (readiness is not simulated).
type noWait struct{ *kube.Client }

func (c *noWait) GetWaiter(kube.WaitStrategy) (kube.Waiter, error) { return nopWaiter{}, nil }

type nopWaiter struct{}

func (nopWaiter) Wait(kube.ResourceList, time.Duration) error            { return nil }
func (nopWaiter) WaitWithJobs(kube.ResourceList, time.Duration) error    { return nil }
func (nopWaiter) WaitForDelete(kube.ResourceList, time.Duration) error   { return nil }
func (nopWaiter) WatchUntilReady(kube.ResourceList, time.Duration) error { return nil }

var resourceKind = map[string]string{"secrets": "Secret", "deployments": "Deployment", "widgets": "Widget", "gadgets": "Gadget"}

// ObserveUninstall installs the chart of a case for real on the simulated cluster and uninstalls
// it; returns the kinds of the DELETE requests in arrival order.
func ObserveUninstall(m *Materialised) ([]string, error) {
	sim := simcluster.New()
	f := &simcluster.Factory{RT: sim.Transport(1), Namespace: batchNS}
	kc := &noWait{&kube.Client{Factory: f, Namespace: batchNS}}
	mem := driver.NewMemory()
	mem.SetNamespace(batchNS)
	cfg := &action.Configuration{Releases: storage.Init(mem), KubeClient: kc, Capabilities: chartutil.DefaultCapabilities.Copy()}
	ch, err := loader.LoadFiles(Shuffled(m.Files, rngFor(1, "u")))
	if err != nil {
		return nil, err
	}
	in := action.NewInstall(cfg)
	in.ReleaseName, in.Namespace, in.DisableHooks, in.WaitStrategy = "rel", batchNS, true, kube.HookOnlyStrategy
	if _, err := in.Run(ch, map[string]interface{}{}); err != nil {
		return nil, fmt.Errorf("install: %w", err)
	}
	from := sim.NumRequests()
	un := action.NewUninstall(cfg)
	un.DisableHooks, un.WaitStrategy = true, kube.HookOnlyStrategy
	if _, err := un.Run("rel"); err != nil {
		return nil, fmt.Errorf("uninstall: %w", err)
	}
	kinds := []string{}
	for _, r := range sim.Requests(from) {
		if r.Method == "DELETE" && !r.Storage {
			if k, ok := resourceKind[r.Key.Resource]; ok {
				kinds = append(kinds, k)
			}
		}
	}
	return kinds, nil
}

// ---- the cluster-connected route ---------------------------------------------------------

// ObserveRoute renders the case once through an action.Configuration that HAS a cluster connection
// (RESTClientGetter set, real kube.Client over the simulated API server, --dry-run=server): renderResources
// then builds the engine with engine.New(restConfig). The outcome must equal the client-only render.
func ObserveRoute(a *Acc, m *Materialised, seed int64) {
	a.mu.Lock()
	first := a.First
	a.mu.Unlock()
	if first == nil {
		return
	}
	ch, err := m.Load("files", rngFor(seed, "route:"+a.Line.ID))
	if err != nil {
		return
	}
	o := routeRender(m, ch, false)
	if os.Getenv("VERIF_DEBUG") != "" {
		fmt.Fprintf(os.Stderr, "ROUTE %s err=%s %s manifest=%v\n", a.Line.ID, o.Err, o.ErrText, o.Manifest)
	}
	if m.Case.uses("LOOK") { // lookup legitimately sees the cluster on this route: the render only leaves its history
		a.mu.Lock()
		a.Runs++
		a.mu.Unlock()
		return
	}
	if got, want := o.Triple(), first.Triple(); got != want {
		detail := ""
		if o.Err != first.Err {
			detail = " (" + o.ErrText + ")"
		} else if len(o.Manifest) > 0 && len(first.Manifest) == len(o.Manifest) {
			for i := range o.Manifest {
				if o.Manifest[i] != first.Manifest[i] {
					detail = fmt.Sprintf(" (document d-%d-%d: payload %q instead of %q)", o.Manifest[i].P, o.Manifest[i].I, o.Manifest[i].V, first.Manifest[i].V)
					break
				}
			}
		}
		a.noteDiff(&a.routeDiff, "install with a cluster connection, --dry-run=server"+detail, got, want)
		return
	}
	a.mu.Lock()
	a.Runs++
	a.mu.Unlock()
}

// routeRender: one install through a Configuration with a cluster connection, --dry-run=server.
func routeRender(m *Materialised, ch *chart.Chart, disableHooks bool) One {
	sim := simcluster.New()
	sim.Put(simcluster.Key{Group: "", Version: "v1", Resource: "secrets", Namespace: "ns", Name: "probe"},
		map[string]interface{}{"metadata": map[string]interface{}{}, "data": map[string]interface{}{"k": "dg=="}})
	f := &simcluster.Factory{RT: discoRT{sim.Transport(1)}, Namespace: batchNS}
	mem := driver.NewMemory()
	mem.SetNamespace(batchNS)
	cfg := &action.Configuration{
		RESTClientGetter: &simcluster.Getter{F: f},
		KubeClient:       &noWait{&kube.Client{Factory: f, Namespace: batchNS}},
		Releases:         storage.Init(mem),
		Capabilities:     chartutil.DefaultCapabilities.Copy(),
	}
	in := action.NewInstall(cfg)
	in.DryRunOption = "server"
	in.ReleaseName, in.Namespace = "rel", "ns"
	in.SubNotes, in.EnableDNS = m.Case.SubNotes, m.Case.DNS
	in.DisableHooks = disableHooks
	in.WaitStrategy = kube.HookOnlyStrategy
	var o One
	rel, err := in.Run(ch, map[string]interface{}{})
	o.fill(m, rel, err)
	return o
}

// discoRT answers the discovery request `lookup` makes (GET /api/v1, /apis/<group>/<version>) from the resource table
// of the simulated API server and hands everything else to it.
type discoRT struct{ inner http.RoundTripper }

func (d discoRT) RoundTrip(req *http.Request) (*http.Response, error) {
	parts := strings.Split(strings.Trim(req.URL.Path, "/"), "/")
	group, version, ok := "", "", false
	if len(parts) == 2 && parts[0] == "api" {
		version, ok = parts[1], true
	} else if len(parts) == 3 && parts[0] == "apis" {
		group, version, ok = parts[1], parts[2], true
	}
	if !ok || req.Method != http.MethodGet {
		return d.inner.RoundTrip(req)
	}
	gv := version
	if group != "" {
		gv = group + "/" + version
	}
	res := []map[string]interface{}{}
	for _, r := range simcluster.Known {
		if r.Group == group && r.Version == version {
			res = append(res, map[string]interface{}{"name": r.Resource, "singularName": "", "namespaced": r.Namespaced, "kind": r.Kind,
				"verbs": []string{"get", "list", "create", "update", "patch", "delete"}})
		}
	}
	body, _ := json.Marshal(map[string]interface{}{"kind": "APIResourceList", "apiVersion": "v1", "groupVersion": gv, "resources": res})
	return &http.Response{StatusCode: 200, Status: "200 OK", Proto: "HTTP/1.1", ProtoMajor: 1, ProtoMinor: 1,
		Header: http.Header{"Content-Type": []string{"application/json"}}, Body: io.NopCloser(bytes.NewReader(body)),
		ContentLength: int64(len(body)), Request: req}, nil
}
