package render

import (
	"fmt"
	"hash/fnv"
	"math/rand"
	"sort"
	"strings"

	"helm.sh/helm/v4/pkg/chart/v2/loader"
)

// Host describes the places outside the chart a template or schema may try to reach.
type Host struct {
	CanaryDir string // absolute directory holding canary.txt and defs.json (outside every chart)
	HTTPBase  string // "http://127.0.0.1:<port>" of the harness' loopback listener ("" = none)
}

func (h Host) CanaryTxt() string  { return h.CanaryDir + "/canary.txt" }
func (h Host) CanaryDefs() string { return h.CanaryDir + "/defs.json" }

func rngFor(seed int64, id string) *rand.Rand {
	h := fnv.New64a()
	h.Write([]byte(id))
	return rand.New(rand.NewSource(seed*1000003 + int64(h.Sum64()&0x7fffffffffff)))
}

var flavours = map[string][]string{
	"plain": {"plain", "annot"}, "annot": {"plain", "annot"},
	"hook1": {"hook1", "hookw", "hook2", "hookU"}, "hookw": {"hook1", "hookw", "hook2", "hookU"},
	"hook2": {"hook1", "hookw", "hook2", "hookU"}, "hookU": {"hook1", "hookw", "hook2", "hookU"},
	"unk": {"unk", "mixed"}, "mixed": {"unk", "mixed"},
}

// Refine draws the concrete flavour of every document (within its class), inserts whitespace-only
// and comment-only documents, adds a NOTES.txt / a partial, and draws the spelling of the files.
// Only the "part" family is refined; the C05 families are replayed as enumerated.
func Refine(cl CaseLine, seed int64) CaseLine {
	if cl.Refined {
		return cl
	}
	r := rngFor(seed, cl.ID)
	out := cl
	out.Refined = true
	f := Fmt{}
	if cl.Case.Fam == "part" {
		c := cl.Case
		nf := make([]File, len(c.Files))
		total := 0
		for _, fl := range c.Files {
			total += len(fl.Docs)
		}
		for i, fl := range c.Files {
			docs := make([]Doc, 0, len(fl.Docs)+2)
			for _, d := range fl.Docs {
				if fv, ok := flavours[d.C]; ok {
					d.C = fv[r.Intn(len(fv))]
				}
				docs = append(docs, d)
			}
			// at most one blank and one comment-only document per file, never more than 5 entries
			for _, extra := range []string{"blank", "comment"} {
				if len(docs) < 5 && r.Intn(4) == 0 {
					pos := r.Intn(len(docs) + 1)
					docs = append(docs, Doc{})
					copy(docs[pos+1:], docs[pos:])
					docs[pos] = Doc{K: "Secret", C: extra, G: "LIT"}
				}
			}
			nf[i] = File{P: fl.P, Docs: docs}
		}
		c.Files = nf
		// NOTES.txt at every depth (templates/NOTES.txt, templates/sub/NOTES.txt; also in the subchart) x SubNotes,
		// and a partial: none of them is ever applied
		if len(c.Notes) == 0 {
			cand := []int{RankPN, RankPSN}
			if contains(c.Subs, "s1") {
				cand = []int{RankS1N, RankS1SN, RankPN, RankPSN} // ascending rank
			}
			notes := []int{}
			for _, n := range cand {
				if r.Intn(2) == 0 {
					notes = append(notes, n)
				}
			}
			c.Notes = notes
			c.SubNotes = r.Intn(2) == 0
		}
		if len(c.Parts) == 0 && r.Intn(2) == 0 {
			c.Parts = []int{RankPH}
		}
		out.Case = c
		f = Fmt{CRLF: r.Intn(4) == 0, Sep: r.Intn(4), LeadSep: r.Intn(3) == 0, TrailSep: r.Intn(3) == 0, NoEOL: r.Intn(3) == 0}
	}
	out.Fmt = &f
	return out
}

var hookAnn = map[string][3]string{ // events, weight, delete policies
	"hook1": {"pre-install", "", ""},
	"hookw": {"post-install", "-5", "before-hook-creation"},
	"hook2": {"pre-install, POST-UPGRADE", "3", "hook-succeeded,hook-failed"}, // event names are case-insensitive
	"hookU": {"Pre-Install", "", ""},
	"unk":   {"pre-instal", "1", ""},
	"mixed": {"pre-install,bogus-event", "", "hook-succeeded"},
}

func progText(g string, h Host, rank int) string {
	switch g {
	case "LIT":
		return "lit"
	case "VAL":
		return "{{ .Values.x }}"
	case "INC":
		return `{{ include "shared" . }}`
	case "INC2":
		return `{{ include "wrap" . }}`
	case "TPL":
		return "{{ tpl .Values.t . }}"
	case "TPL2":
		return "{{ tpl .Values.t2 . }}"
	case "FGET":
		return `{{ .Files.Get "files/a.txt" }}`
	case "FGLOB":
		return `{{ range $p, $_ := .Files.Glob "files/*" }}{{ $p }};{{ end }}`
	case "FOUT":
		return fmt.Sprintf(`[{{ .Files.Get "%s" }}{{ .Files.Get "canary.txt" }}{{ .Files.Get "../canary.txt" }}{{ .Files.Get "../../canary.txt" }}`+
			`{{ range $p, $_ := .Files.Glob "%s/*" }}{{ $p }}{{ end }}{{ range $p, $_ := .Files.Glob "../*" }}{{ $p }}{{ end }}]`, h.CanaryTxt(), h.CanaryDir)
	case "DNS":
		return `[{{ getHostByName "localhost" }}]`
	case "SET": // records a value in the values map that all files of the chart share
		return fmt.Sprintf(`{{ $_ := set .Values "state" "s%d" }}set`, rank)
	case "GET":
		return `{{ .Values.state | default "unset" }}`
	case "GETS": // parent files only: the subchart's values are the table .Values.s1 of the parent
		return `{{ .Values.s1.state | default "unset" }}`
	case "MUT": // mutates the elements of a list that comes from the chart's default values
		return `{{ range .Values.ports }}{{ $_ := set . "name" (printf "%s-%s" $.Release.Name .name) }}{{ end }}{{ (index .Values.ports 0).name }}`
	case "FCFG": // two chart files with the same base name in different directories
		return `{{ (.Files.Glob "conf/**").AsConfig }}`
	case "FSEC":
		return `{{ (.Files.Glob "conf/**").AsSecrets }}`
	case "FGLOB2":
		return `{{ range $p, $_ := .Files.Glob "conf/**" }}{{ $p }};{{ end }}`
	case "LOOK": // an object that exists in every simulated cluster the harness connects a render to
		return `{{ lookup "v1" "Secret" "ns" "probe" | len }}`
	case "CAPV":
		return `{{ .Capabilities.KubeVersion.Version }}`
	case "CAPA": // an API version that only an --api-versions option could add
		return `{{ .Capabilities.APIVersions.Has "verif.example/v9" }}`
	case "FAIL":
		return fmt.Sprintf(`{{ fail "boom-%d" }}`, rank)
	case "ENV":
		return `{{ env "VERIF_CANARY" }}`
	case "EXPANDENV":
		return `{{ expandenv "$VERIF_CANARY" }}`
	}
	return "?"
}

// DocText is the source text of one document (before any separator / line-ending spelling).
func DocText(rank, idx int, d Doc, h Host) string {
	switch d.C {
	case "blank":
		return "  "
	case "comment":
		return fmt.Sprintf("# c-%d-%d\n# nothing but a comment", rank, idx)
	}
	var sb strings.Builder
	api := "v1"
	switch d.K {
	case "Deployment":
		api = "apps/v1"
	case "Widget", "Gadget":
		api = "verif.example/v1"
	}
	fmt.Fprintf(&sb, "apiVersion: %s\nkind: %s\nmetadata:\n  name: d-%d-%d\n", api, d.K, rank, idx)
	if a, ok := hookAnn[d.C]; ok {
		fmt.Fprintf(&sb, "  annotations:\n    \"helm.sh/hook\": %s\n", a[0])
		if a[1] != "" {
			fmt.Fprintf(&sb, "    \"helm.sh/hook-weight\": \"%s\"\n", a[1])
		}
		if a[2] != "" {
			fmt.Fprintf(&sb, "    \"helm.sh/hook-delete-policy\": %s\n", a[2])
		}
	} else if d.C == "annot" {
		sb.WriteString("  annotations:\n    \"helm.sh/resource-policy\": keep\n")
	}
	key := "data"
	if d.K == "Deployment" || d.K == "Widget" || d.K == "Gadget" {
		key = "spec"
	} else if d.K == "Secret" {
		key = "stringData"
	}
	fmt.Fprintf(&sb, "%s:\n  v: \"%s\"", key, progText(d.G, h, rank))
	return sb.String()
}

var seps = []string{"\n---\n", "\n---\n---\n", "\n--- \n", "\n\n---\n\n"}

// FileText joins the documents of a file in the drawn spelling.
func FileText(fl File, f Fmt, h Host) string {
	parts := make([]string, len(fl.Docs))
	for i, d := range fl.Docs {
		parts[i] = DocText(fl.P, i+1, d, h)
	}
	s := strings.Join(parts, seps[f.Sep%len(seps)])
	if f.LeadSep {
		s = "---\n" + s
	}
	if f.TrailSep {
		s += "\n---\n"
	} else if !f.NoEOL {
		s += "\n"
	}
	if f.CRLF {
		s = strings.ReplaceAll(s, "\n", "\r\n")
	}
	return s
}

func contains(l []string, x string) bool {
	for _, y := range l {
		if y == x {
			return true
		}
	}
	return false
}

func schemaJSON(form string, h Host) string {
	ref := ""
	switch form {
	case "local":
		ref = "#/$defs/str"
	case "rel":
		ref = strings.TrimPrefix(h.CanaryDefs(), "/") + "#/$defs/x"
	case "file":
		ref = "file://" + h.CanaryDefs() + "#/$defs/x"
	case "http":
		ref = "http://schema.invalid/defs.json#/$defs/x"
		if h.HTTPBase != "" { // a listener of the harness that counts requests and follows the canary
			ref = h.HTTPBase + "/defs.json#/$defs/x"
		}
	}
	return fmt.Sprintf(`{"type":"object","properties":{"x":{"$ref":"%s"}},"$defs":{"str":{"type":"string"}}}`, ref)
}

// ChartFiles is the chart of a case as a flat file list (names relative to the chart root).
func ChartFiles(c Case, f Fmt, h Host) []*loader.BufferedFile {
	var out []*loader.BufferedFile
	add := func(name, data string) { out = append(out, &loader.BufferedFile{Name: name, Data: []byte(data)}) }
	charts := append([]string{"p"}, c.Subs...)
	prefix := func(ch string) string {
		if ch == "p" {
			return ""
		}
		return "charts/" + ch + "/"
	}
	for _, ch := range charts {
		pre := prefix(ch)
		meta := fmt.Sprintf("apiVersion: v2\nname: %s\nversion: 0.1.0\n", ch)
		if ch == "p" && c.Decl != "" && c.Decl != "none" && len(c.Subs) > 0 {
			subs := append([]string{}, c.Subs...)
			sort.Strings(subs)
			if c.Decl == "rev" {
				for i, j := 0, len(subs)-1; i < j; i, j = i+1, j-1 {
					subs[i], subs[j] = subs[j], subs[i]
				}
			}
			meta += "dependencies:\n"
			for _, s := range subs {
				meta += fmt.Sprintf("- name: %s\n  version: 0.1.0\n  repository: \"\"\n", s)
			}
		}
		add(pre+"Chart.yaml", meta)
		add(pre+"values.yaml", fmt.Sprintf("x: v-%s\nt: 'T[{{ include \"shared\" . }}]'\nt2: 'U[{{ tpl .Values.t . }}]'\nports:\n- name: http\n", ch))
		add(pre+"files/a.txt", "F-"+ch)
		add(pre+"files/b.txt", "G-"+ch)
		add(pre+"conf/a/x.txt", "XA-"+ch)
		add(pre+"conf/b/x.txt", "XB-"+ch)
		if c.Schema != "" && c.Schema != "none" && c.SchemaAt == ch {
			add(pre+"values.schema.json", schemaJSON(c.Schema, h))
		}
		if contains(c.Crds, ch) {
			crd := func(n string) string {
				return fmt.Sprintf("apiVersion: apiextensions.k8s.io/v1\nkind: CustomResourceDefinition\nmetadata:\n  name: crd-%s%s\nspec:\n  group: verif.example\n", ch, n)
			}
			if ch == "p" { // the parent carries TWO files under crds/ (their relative order follows the file load order)
				add(pre+"crds/a.yaml", crd("-a"))
				add(pre+"crds/b.yaml", crd("-b"))
			} else {
				add(pre+"crds/crd.yaml", crd(""))
			}
		}
	}
	tname := func(rank int) string { // chart-relative file name of a template path
		n := PathName[rank-1]
		return strings.TrimPrefix(n, "p/")
	}
	for _, fl := range c.Files {
		add(tname(fl.P), FileText(fl, f, h))
	}
	for _, p := range c.Parts {
		add(tname(p), fmt.Sprintf("{{- define \"shared\" -}}D%d{{- end -}}\n{{- define \"wrap\" -}}W%d({{ include \"shared\" . }}){{- end -}}\n", p, p))
	}
	for _, p := range c.Notes {
		add(tname(p), NoteText(p))
	}
	return out
}

// Shuffled returns the files in another order (file load order is part of the C05 statement).
func Shuffled(files []*loader.BufferedFile, r *rand.Rand) []*loader.BufferedFile {
	out := make([]*loader.BufferedFile, len(files))
	for i, f := range files {
		// LoadFiles rewrites Name of subchart files in place: hand it private copies
		out[i] = &loader.BufferedFile{Name: f.Name, Data: f.Data}
	}
	r.Shuffle(len(out), func(i, j int) { out[i], out[j] = out[j], out[i] })
	return out
}
