//go:build verif

package render

import (
	"bytes"
	"fmt"
	"io"
	"log/slog"
	"sync"

	"helm.sh/helm/v4/pkg/action"
	chartutil "helm.sh/helm/v4/pkg/chart/v2/util"
	helmcmd "helm.sh/helm/v4/pkg/cmd"
	"helm.sh/helm/v4/pkg/kube"
	"helm.sh/helm/v4/pkg/storage"
	"helm.sh/helm/v4/pkg/storage/driver"

	"verif/harness/simcluster"
)

// pkg/cmd keeps its settings in package globals: one command line at a time.
var cliMu sync.Mutex

func cliConfig() *action.Configuration {
	sim := simcluster.New()
	f := &simcluster.Factory{RT: discoRT{sim.Transport(1)}, Namespace: batchNS}
	mem := driver.NewMemory()
	mem.SetNamespace(batchNS)
	return &action.Configuration{
		RESTClientGetter: &simcluster.Getter{F: f},
		KubeClient:       &noWait{&kube.Client{Factory: f, Namespace: batchNS}},
		Releases:         storage.Init(mem),
		Capabilities:     chartutil.DefaultCapabilities.Copy(),
		HookOutputFunc:   func(_, _, _ string) io.Writer { return io.Discard },
	}
}

func runCLI(cfg *action.Configuration, args []string) (string, error) {
	cliMu.Lock()
	defer cliMu.Unlock()
	var out bytes.Buffer
	root, err := helmcmd.NewRootCmdWithConfigForVerif(cfg, &out, args)
	slog.SetDefault(slog.New(slog.NewTextHandler(io.Discard, nil))) // the root command installs helm's own logger
	if err != nil {
		return "", err
	}
	root.SetArgs(args)
	root.SetOut(&out)
	root.SetErr(io.Discard)
	err = root.Execute()
	return out.String(), err
}

// ObserveCLI drives the helm COMMAND LINE (flag parsing and wiring of pkg/cmd) on the chart directory of a case
// that asks the resolver (getHostByName): template, install, upgrade of an existing release and `upgrade --install`
// of a missing one, each with unrelated flags set, with --enable-dns exactly when the case has it. Every route must
// record the documents the SDK render recorded (without --enable-dns: the stub, "").
func ObserveCLI(a *Acc, m *Materialised) {
	if m.Dir == "" || !m.Case.uses("DNS") {
		return
	}
	a.mu.Lock()
	first := a.First
	a.mu.Unlock()
	if first == nil || first.Err != "none" || len(first.HookList) > 0 {
		return
	}
	dns := []string{}
	if m.Case.DNS {
		dns = []string{"--enable-dns"}
	}
	other := []string{"--dependency-update", "--create-namespace"}
	compare := func(route string, manifest string, err error) {
		if err != nil {
			a.noteDiff(&a.cliDiff, route, "error "+err.Error(), "the documents of the SDK render")
			return
		}
		entries, _, _, _, _ := m.parseManifest(manifest)
		ok := len(entries) == len(first.Manifest)
		for i := 0; ok && i < len(entries); i++ {
			ok = entries[i].P == first.Manifest[i].P && entries[i].I == first.Manifest[i].I && entries[i].V == first.Manifest[i].V
		}
		if !ok {
			a.noteDiff(&a.cliDiff, route, fmt.Sprint(entries), fmt.Sprint(first.Manifest))
			return
		}
		a.mu.Lock()
		a.Runs++
		a.mu.Unlock()
	}
	stored := func(cfg *action.Configuration) (string, error) {
		rel, err := cfg.Releases.Last("rel")
		if err != nil {
			return "", err
		}
		return rel.Manifest, nil
	}
	cat := func(l ...[]string) []string {
		var out []string
		for _, x := range l {
			out = append(out, x...)
		}
		return out
	}
	base := []string{"rel", m.Dir, "--namespace", batchNS}
	// helm template
	out, err := runCLI(new(action.Configuration), cat([]string{"template"}, base, []string{"--dependency-update"}, dns))
	compare("helm template --dependency-update", out, err)
	// helm install
	cfg := cliConfig()
	_, err = runCLI(cfg, cat([]string{"install"}, base, other, dns))
	man, err2 := stored(cfg)
	if err == nil {
		err = err2
	}
	compare("helm install --dependency-update --create-namespace", man, err)
	// helm upgrade of the release just installed
	_, err = runCLI(cfg, cat([]string{"upgrade"}, base, []string{"--dependency-update"}, dns))
	man, err2 = stored(cfg)
	if err == nil {
		err = err2
	}
	compare("helm upgrade --dependency-update", man, err)
	// helm upgrade --install of a release that does not exist: falls back to install
	for _, flags := range [][]string{{"--dependency-update"}, {"--create-namespace"}, other} {
		cfg = cliConfig()
		_, err = runCLI(cfg, cat([]string{"upgrade", "--install"}, base, flags, dns))
		man, err2 = stored(cfg)
		if err == nil {
			err = err2
		}
		compare(fmt.Sprintf("helm upgrade --install %v (no such release)", flags), man, err)
	}
}
