// Package creds is the Go side of C19 (Creds.tla): it replays every case TLC enumerated on the real
// code paths (HTTP getter, ChartDownloader, ChartPathOptions.LocateChart, action.Pull,
// downloader.Manager) and records every HTTP request that leaves helm - scheme, host, port and
// whether it carried an Authorization header - at an in-process capture server.
//
// Two seams carry the requests to the capture server:
//   - an *http.Transport whose DialContext / DialTLSContext hand out one end of a net.Pipe to an
//     in-process http.Server (any host name, both schemes, no DNS, sockets or certificates), injected
//     with getter.WithTransport through a getter.Provider that builds the real HTTPGetter;
//   - for code that hard-codes getter.All (LocateChart, Pull): HTTP_PROXY / HTTPS_PROXY pointing at
//     a loopback listener of the same capture server, which answers absolute-URI requests itself and
//     terminates CONNECT tunnels with a throw-away certificate (the calls set InsecureSkipTLSverify).
package creds

import (
	"bufio"
	"bytes"
	"context"
	"crypto/ecdsa"
	"crypto/elliptic"
	"crypto/rand"
	"crypto/tls"
	"crypto/x509"
	"crypto/x509/pkix"
	"encoding/json"
	"encoding/pem"
	"flag"
	"fmt"
	"io"
	"math/big"
	mrand "math/rand"
	"net"
	"net/http"
	"os"
	"path/filepath"
	"runtime/debug"
	"strconv"
	"strings"
	"sync"
	"time"

	"helm.sh/helm/v4/pkg/action"
	chart "helm.sh/helm/v4/pkg/chart/v2"
	chartutil "helm.sh/helm/v4/pkg/chart/v2/util"
	"helm.sh/helm/v4/pkg/cli"
	"helm.sh/helm/v4/pkg/downloader"
	"helm.sh/helm/v4/pkg/getter"
	"helm.sh/helm/v4/pkg/repo"
	"sigs.k8s.io/yaml"
)

func Register(c map[string]func(args []string) error) {
	c["creds-run"] = cmdRun
}

type URLRec struct {
	Scheme string `json:"scheme"`
	Host   string `json:"host"`
	Upper  bool   `json:"upper"`
	Port   int    `json:"port"`
	User   string `json:"user"`
	Dir    string `json:"dir"`
}

type Case struct {
	ID       int    `json:"id"`
	Path     string `json:"path"`
	Repo     URLRec `json:"repo"`
	Variant  string `json:"variant"`
	Relative bool   `json:"relative"`
	Chart    URLRec `json:"chart"`
	PassAll  bool   `json:"passAll"`
	Redirect bool   `json:"redirect"`
	Target   URLRec `json:"target"`
	TLS      string `json:"tls"`    // TLS settings on the repository entry: none | ca | cert | insecure
	Order    string `json:"order"`  // single | privfirst | pubfirst (two dependencies from two repositories)
	Conf     string `json:"conf"`   // fresh | readded (registered with pass-credentials first, then again as the case says)
	Public   URLRec `json:"public"` // the second, public repository
}

// Req is one request seen by the capture server.
type Req struct {
	Kind    string `json:"kind"`   // index | chart | prov | redirected | other
	Scheme  string `json:"scheme"` // scheme the client used to reach the server
	Host    string `json:"host"`   // abstract host identity
	RawHost string `json:"rawhost"`
	Port    int    `json:"port"`
	Auth    bool   `json:"auth"`   // an Authorization header was present
	Ours    bool   `json:"ours"`   // ... and it is the repository's username/password
	URLPath string `json:"path"`
	Via     string `json:"via"` // pipe | proxy | tunnel
	User    string `json:"-"`
	EmptyPw bool   `json:"-"`
	Note    string `json:"note,omitempty"`
}

type Obs struct {
	ID       int    `json:"id"`
	Conc     int    `json:"conc"`
	Path     string `json:"path"`
	Variant  string `json:"variant"`
	PassAll  bool   `json:"passAll"`
	Redirect bool   `json:"redirect"`
	TLS      string `json:"tls"`
	Order    string `json:"order"`
	Conf     string `json:"conf"`
	Repo     URLRec `json:"repo"`
	RepoURL  string `json:"repoURL"`
	ChartURL string `json:"chartURL"`
	Reqs     []Req  `json:"reqs"`
	Err      string `json:"err"`
	Panic    string `json:"panic"`
}

// names gives the abstract hosts and ports concrete spellings for one concretisation.
type names struct {
	host map[string]string // abstract id -> lower-case name
	id   map[string]string // lower-case name -> abstract id
	port map[int]int       // abstract port -> concrete port
	user string
	pass string
}

func newNames(rng *mrand.Rand) *names {
	tag := fmt.Sprintf("%04x", rng.Intn(1<<16))
	tld := []string{"test", "example", "invalid"}[rng.Intn(3)]
	repoHost := "repo-" + tag + ".charts." + tld
	n := &names{host: map[string]string{
		"repo":   repoHost,
		"other":  "other-" + tag + ".mirror." + tld,
		"sub":    "dl." + repoHost,
		"suffix": repoHost + ".evil-" + tag + ".test",
		"cdn":    "cdn-" + tag + ".elsewhere.test",
		"public": "public-" + tag + ".charts-for-all.test",
	}, id: map[string]string{}, port: map[int]int{}}
	for k, v := range n.host {
		n.id[v] = k
	}
	used := map[int]bool{80: true, 443: true}
	for _, p := range []int{8080, 8443, 9090, 7070} {
		c := p
		if rng.Intn(2) == 0 {
			for {
				c = 1024 + rng.Intn(60000)
				if !used[c] {
					break
				}
			}
		}
		used[c] = true
		n.port[p] = c
	}
	n.port[80], n.port[443], n.port[0] = 80, 443, 0
	n.user = "user-" + tag
	n.pass = "pw-" + fmt.Sprintf("%08x", rng.Uint32())
	return n
}

func (n *names) hostname(u URLRec) string {
	h := n.host[u.Host]
	if u.Upper {
		i := strings.Index(h, ".")
		h = strings.ToUpper(h[:i]) + h[i:]
	}
	return h
}

func (n *names) base(u URLRec) string {
	s := u.Scheme + "://"
	switch u.User {
	case "plain":
		s += "someone@"
	case "hostlike":
		s += n.host["repo"] + "@"
	}
	s += n.hostname(u)
	if u.Port != 0 {
		s += ":" + strconv.Itoa(n.port[u.Port])
	}
	return s + "/" + u.Dir
}

// ---------------------------------------------------------------------------------------------
// capture server

type capture struct {
	mu      sync.Mutex
	reqs    []Req
	n       *names
	index   []byte
	indexOf map[string][]byte // host identity -> its own index (else index)
	archive []byte
	redirTo string // where chart requests are redirected ("" = served)
	cert    tls.Certificate
	proxyLn net.Listener
}

func (c *capture) reset(n *names, index []byte, redirTo string, indexOf map[string][]byte) {
	c.mu.Lock()
	c.reqs, c.n, c.index, c.redirTo, c.indexOf = nil, n, index, redirTo, indexOf
	c.mu.Unlock()
}

func (c *capture) taken() []Req {
	c.mu.Lock()
	defer c.mu.Unlock()
	return append([]Req(nil), c.reqs...)
}

func splitHostPort(hostport, scheme string) (string, int) {
	h, p, err := net.SplitHostPort(hostport)
	if err != nil {
		h = hostport
		p = ""
	}
	port := 80
	if scheme == "https" {
		port = 443
	}
	if p != "" {
		port, _ = strconv.Atoi(p)
	}
	return strings.ToLower(h), port
}

// handler records the request and serves index / archive / provenance / redirect.
func (c *capture) handler(scheme, dialled, via string) http.Handler {
	return http.HandlerFunc(func(w http.ResponseWriter, r *http.Request) {
		hostport := dialled
		if hostport == "" {
			hostport = r.Host
		}
		h, port := splitHostPort(hostport, scheme)
		c.mu.Lock()
		n := c.n
		id, ok := n.id[h]
		if !ok {
			id = "unknown:" + h
		}
		// report the abstract port the concrete one stands for
		aport := port
		for a, cp := range n.port {
			if cp == port && a != 0 {
				aport = a
			}
		}
		kind := "other"
		p := r.URL.Path
		switch {
		case strings.HasSuffix(p, "index.yaml"):
			kind = "index"
		case strings.HasSuffix(p, ".tgz"):
			kind = "chart"
			if id == "cdn" {
				kind = "redirected"
			}
		case strings.HasSuffix(p, ".prov"):
			kind = "prov"
		}
		u, pw, okAuth := r.BasicAuth()
		c.reqs = append(c.reqs, Req{Kind: kind, Scheme: scheme, Host: id, RawHost: r.Host, Port: aport,
			Auth: r.Header.Get("Authorization") != "", Ours: okAuth && u == n.user && pw == n.pass, URLPath: p, Via: via,
			User: u, EmptyPw: okAuth && pw == ""})
		index, archive, redir := c.index, c.archive, c.redirTo
		if own, ok := c.indexOf[id]; ok {
			index = own
		}
		if id == "public" {
			redir = ""
		}
		c.mu.Unlock()
		switch kind {
		case "index":
			w.Write(index)
		case "chart":
			if redir != "" {
				http.Redirect(w, r, redir, http.StatusFound)
				return
			}
			w.Write(archive)
		case "redirected":
			w.Write(archive)
		case "prov":
			w.Write([]byte("-----BEGIN PGP SIGNED MESSAGE-----\nnot a signature\n"))
		default:
			http.NotFound(w, r)
		}
	})
}

type oneConn struct {
	c    net.Conn
	done chan struct{}
	once sync.Once
}

func (l *oneConn) Accept() (net.Conn, error) {
	var c net.Conn
	l.once.Do(func() { c = l.c })
	if c != nil {
		return c, nil
	}
	<-l.done
	return nil, io.EOF
}
func (l *oneConn) Close() error   { return nil }
func (l *oneConn) Addr() net.Addr { return &net.TCPAddr{IP: net.IPv4(127, 0, 0, 1)} }

type closeNotify struct {
	net.Conn
	done chan struct{}
	once sync.Once
}

func (c *closeNotify) Close() error {
	c.once.Do(func() { close(c.done) })
	return c.Conn.Close()
}

func (c *capture) serveConn(conn net.Conn, h http.Handler) {
	done := make(chan struct{})
	cn := &closeNotify{Conn: conn, done: done}
	srv := &http.Server{Handler: h, ReadHeaderTimeout: 10 * time.Second}
	srv.SetKeepAlivesEnabled(false)
	go srv.Serve(&oneConn{c: cn, done: done})
}

// transport: every dial is answered by the capture server over a pipe.
func (c *capture) transport() *http.Transport {
	dial := func(scheme string) func(ctx context.Context, network, addr string) (net.Conn, error) {
		return func(_ context.Context, _, addr string) (net.Conn, error) {
			cl, sv := net.Pipe()
			c.serveConn(sv, c.handler(scheme, addr, "pipe"))
			return cl, nil
		}
	}
	return &http.Transport{
		DialContext:       dial("http"),
		DialTLSContext:    dial("https"),
		DisableKeepAlives: true,
		Proxy:             nil,
	}
}

// proxy: loopback listener for code that only honours HTTP_PROXY / HTTPS_PROXY.
func (c *capture) startProxy() (string, error) {
	ln, err := net.Listen("tcp", "127.0.0.1:0")
	if err != nil {
		return "", err
	}
	c.proxyLn = ln
	key, _ := ecdsa.GenerateKey(elliptic.P256(), rand.Reader)
	tmpl := &x509.Certificate{SerialNumber: big.NewInt(1), Subject: pkix.Name{CommonName: "c19 capture"},
		NotBefore: time.Now().Add(-time.Hour), NotAfter: time.Now().Add(24 * time.Hour),
		KeyUsage: x509.KeyUsageDigitalSignature | x509.KeyUsageKeyEncipherment, ExtKeyUsage: []x509.ExtKeyUsage{x509.ExtKeyUsageServerAuth},
		DNSNames: []string{"*"}}
	der, err := x509.CreateCertificate(rand.Reader, tmpl, tmpl, &key.PublicKey, key)
	if err != nil {
		return "", err
	}
	c.cert = tls.Certificate{Certificate: [][]byte{der}, PrivateKey: key}
	srv := &http.Server{Handler: http.HandlerFunc(func(w http.ResponseWriter, r *http.Request) {
		if r.Method == http.MethodConnect {
			hj, ok := w.(http.Hijacker)
			if !ok {
				http.Error(w, "no hijack", 500)
				return
			}
			conn, _, err := hj.Hijack()
			if err != nil {
				return
			}
			conn.Write([]byte("HTTP/1.1 200 Connection established\r\n\r\n"))
			tc := tls.Server(conn, &tls.Config{Certificates: []tls.Certificate{c.cert}})
			c.serveConn(tc, c.handler("https", r.Host, "tunnel"))
			return
		}
		// absolute-URI request of a plain http URL
		c.handler("http", r.URL.Host, "proxy").ServeHTTP(w, r)
	})}
	go srv.Serve(ln)
	return "http://" + ln.Addr().String(), nil
}

// ---------------------------------------------------------------------------------------------
// replay

type runner struct {
	pem     string
	cap     *capture
	tmp     string
	archive []byte
}

func (r *runner) providers() getter.Providers {
	tr := r.cap.transport()
	return getter.Providers{{Schemes: []string{"http", "https"}, New: func(opts ...getter.Option) (getter.Getter, error) {
		opts = append(opts, getter.WithTransport(tr))
		return getter.NewHTTPGetter(opts...)
	}}}
}

const chartFile = "chart-1.0.0.tgz"

func indexBytes(entryURL string) []byte { return indexBytesFor("chart", entryURL) }

func indexBytesFor(name, entryURL string) []byte {
	doc := map[string]any{"apiVersion": "v1", "generated": "2024-01-02T03:04:05Z", "entries": map[string]any{
		name: []any{map[string]any{"name": name, "version": "1.0.0", "apiVersion": "v2", "urls": []string{entryURL},
			"digest": "0000", "created": "2024-01-02T03:04:05Z"}}}}
	b, _ := yaml.Marshal(doc)
	return b
}

func (r *runner) one(cs Case, conc int, n *names) (o Obs) {
	o = Obs{ID: cs.ID, Conc: conc, Path: cs.Path, Variant: cs.Variant, PassAll: cs.PassAll, Redirect: cs.Redirect, Repo: cs.Repo,
		TLS: cs.TLS, Order: cs.Order, Conf: cs.Conf}
	repoURL := n.base(cs.Repo)
	chartURL := n.base(cs.Chart) + "/" + chartFile
	entry := chartURL
	if cs.Relative {
		entry = chartFile
	}
	o.RepoURL, o.ChartURL = repoURL, chartURL
	redir := ""
	if cs.Redirect {
		redir = n.base(cs.Target) + "/" + chartFile
	}
	idx := indexBytes(entry)
	var indexOf map[string][]byte
	pubURL := ""
	if cs.Path == "manager2" {
		pubURL = n.base(cs.Public)
		indexOf = map[string][]byte{"public": indexBytesFor("pubchart", "pubchart-1.0.0.tgz")}
	}
	r.cap.reset(n, idx, redir, indexOf)

	dir := filepath.Join(r.tmp, "case")
	os.RemoveAll(dir)
	cache := filepath.Join(dir, "cache")
	dest := filepath.Join(dir, "dest")
	os.MkdirAll(cache, 0o755)
	os.MkdirAll(dest, 0o755)
	repoCfg := filepath.Join(dir, "repositories.yaml")
	writeRepoCfg := func(with bool) {
		rf := repo.NewFile()
		if with {
			ent := &repo.Entry{Name: "r", URL: repoURL, Username: n.user, Password: n.pass, PassCredentialsAll: cs.PassAll}
			switch cs.TLS { // the transport is injected, the files are never opened; they only have to be named
			case "ca":
				ent.CAFile = r.pem
			case "cert":
				ent.CertFile, ent.KeyFile = r.pem, r.pem
			case "insecure":
				ent.InsecureSkipTLSverify = true
			}
			if cs.Conf == "readded" { // the history of the entry: first with pass-credentials and a CA file, then as configured
				first := *ent
				first.PassCredentialsAll, first.CAFile, first.InsecureSkipTLSverify = true, r.pem, true
				rf.Add(&first)
				rf.WriteFile(repoCfg, 0o644)
				if reread, err := repo.LoadFile(repoCfg); err == nil {
					rf = reread
				}
				rf.Update(ent)
			} else {
				rf.Add(ent)
			}
			os.WriteFile(filepath.Join(cache, "r-index.yaml"), idx, 0o644)
			if pubURL != "" {
				rf.Add(&repo.Entry{Name: "pub", URL: pubURL})
			}
		}
		rf.WriteFile(repoCfg, 0o644)
	}
	settings := cli.New()
	settings.RepositoryConfig = repoCfg
	settings.RepositoryCache = cache
	settings.PluginsDirectory = filepath.Join(dir, "plugins")

	defer func() {
		if p := recover(); p != nil {
			o.Panic = fmt.Sprint(p) + "\n" + string(debug.Stack())
		}
		time.Sleep(2 * time.Millisecond) // let the server goroutines append their last record
		o.Reqs = r.cap.taken()
		// net/http turns the userinfo of a URL into an Authorization header of its own: that is the
		// URL's user name with an empty password, not the repository's credentials
		ui := map[string]string{"plain": "someone", "hostlike": n.host["repo"]}[cs.Chart.User]
		for i := range o.Reqs {
			q := &o.Reqs[i]
			if q.Auth && !q.Ours && ui != "" && q.User == ui && q.EmptyPw {
				q.Auth = false
				q.Note = "Authorization header derived from the userinfo of the chart URL itself"
			}
		}
	}()
	var err error
	switch cs.Path {
	case "getter":
		var g getter.Getter
		g, err = getter.NewHTTPGetter(getter.WithURL(repoURL), getter.WithBasicAuth(n.user, n.pass),
			getter.WithPassCredentialsAll(cs.PassAll), getter.WithTransport(r.cap.transport()))
		if err == nil {
			_, err = g.Get(chartURL)
		}
	case "dl_name", "dl_url":
		writeRepoCfg(true)
		dl := downloader.ChartDownloader{Out: io.Discard, Verify: downloader.VerifyLater, Getters: r.providers(),
			RepositoryConfig: repoCfg, RepositoryCache: cache}
		ref := "r/chart"
		if cs.Path == "dl_url" {
			ref = chartURL
		}
		_, _, err = dl.DownloadTo(ref, "", dest)
	case "locate":
		writeRepoCfg(false)
		cpo := action.ChartPathOptions{RepoURL: repoURL, Username: n.user, Password: n.pass, PassCredentialsAll: cs.PassAll,
			Verify: true, Keyring: filepath.Join(dir, "no-keyring"), InsecureSkipTLSverify: true}
		_, err = cpo.LocateChart("chart", settings)
	case "pull":
		writeRepoCfg(false)
		p := action.NewPull(action.WithConfig(&action.Configuration{}))
		p.Settings = settings
		p.RepoURL, p.Username, p.Password, p.PassCredentialsAll = repoURL, n.user, n.pass, cs.PassAll
		p.InsecureSkipTLSverify = true
		p.VerifyLater = true
		p.DestDir = dest
		_, err = p.Run("chart")
	case "manager", "manager2":
		writeRepoCfg(true)
		os.Remove(filepath.Join(cache, "r-index.yaml")) // Update fetches it
		cdir := filepath.Join(dir, "parent")
		os.MkdirAll(cdir, 0o755)
		priv := &chart.Dependency{Name: "chart", Version: "1.0.0", Repository: repoURL}
		pub := &chart.Dependency{Name: "pubchart", Version: "1.0.0", Repository: pubURL}
		md := &chart.Metadata{APIVersion: "v2", Name: "parent", Version: "0.1.0", Dependencies: []*chart.Dependency{priv}}
		switch cs.Order {
		case "privfirst":
			md.Dependencies = []*chart.Dependency{priv, pub}
		case "pubfirst":
			md.Dependencies = []*chart.Dependency{pub, priv}
		}
		b, _ := yaml.Marshal(md)
		os.WriteFile(filepath.Join(cdir, "Chart.yaml"), b, 0o644)
		m := &downloader.Manager{Out: io.Discard, ChartPath: cdir, Getters: r.providers(), RepositoryConfig: repoCfg,
			RepositoryCache: cache, Verify: downloader.VerifyLater}
		err = m.Update()
	default:
		err = fmt.Errorf("unknown path %q", cs.Path)
	}
	if err != nil {
		o.Err = err.Error()
		if len(o.Err) > 300 {
			o.Err = o.Err[:300]
		}
	}
	return o
}

// cmdRun: hv_misc creds-run -cases cases.ndjson -out obs.ndjson -seed S -n N
func cmdRun(args []string) error {
	fs := flag.NewFlagSet("creds-run", flag.ExitOnError)
	casesF := fs.String("cases", "", "cases NDJSON (TLC export)")
	outF := fs.String("out", "", "observations NDJSON")
	seed := fs.Int64("seed", 1, "seed")
	nconc := fs.Int("n", 1, "concretisations (host names, ports, credentials) per case")
	tmp := fs.String("tmp", "", "scratch directory")
	fs.Parse(args)
	if *tmp == "" {
		*tmp, _ = os.MkdirTemp("", "c19")
	}
	os.MkdirAll(*tmp, 0o755)
	cp := &capture{}
	proxyURL, err := cp.startProxy()
	if err != nil {
		return err
	}
	// before the first request of the process: net/http reads the proxy environment once
	for _, k := range []string{"HTTP_PROXY", "HTTPS_PROXY", "http_proxy", "https_proxy"} {
		os.Setenv(k, proxyURL)
	}
	for _, k := range []string{"NO_PROXY", "no_proxy"} {
		os.Unsetenv(k)
	}
	home := filepath.Join(*tmp, "home")
	os.Setenv("HELM_CACHE_HOME", filepath.Join(home, "cache"))
	os.Setenv("HELM_CONFIG_HOME", filepath.Join(home, "config"))
	os.Setenv("HELM_DATA_HOME", filepath.Join(home, "data"))
	ch := &chart.Chart{Metadata: &chart.Metadata{APIVersion: "v2", Name: "chart", Version: "1.0.0"}}
	ap, err := chartutil.Save(ch, *tmp)
	if err != nil {
		return err
	}
	cp.archive, _ = os.ReadFile(ap)
	pemPath := filepath.Join(*tmp, "ca.pem")
	os.WriteFile(pemPath, pem.EncodeToMemory(&pem.Block{Type: "CERTIFICATE", Bytes: cp.cert.Certificate[0]}), 0o644)
	r := &runner{cap: cp, tmp: *tmp, pem: pemPath}

	f, err := os.Open(*casesF)
	if err != nil {
		return err
	}
	defer f.Close()
	out, err := os.Create(*outF)
	if err != nil {
		return err
	}
	defer out.Close()
	w := bufio.NewWriter(out)
	defer w.Flush()
	sc := bufio.NewScanner(f)
	sc.Buffer(make([]byte, 1<<20), 1<<24)
	ncases := 0
	var cases []Case
	for sc.Scan() {
		if len(bytes.TrimSpace(sc.Bytes())) == 0 {
			continue
		}
		var cs Case
		if err := json.Unmarshal(sc.Bytes(), &cs); err != nil {
			return err
		}
		cases = append(cases, cs)
	}
	for k := 0; k < *nconc; k++ {
		n := newNames(mrand.New(mrand.NewSource(*seed*1000 + int64(k))))
		for _, cs := range cases {
			o := r.one(cs, k, n)
			b, _ := json.Marshal(o)
			w.Write(b)
			w.WriteByte('\n')
			ncases++
		}
	}
	fmt.Fprintf(os.Stderr, "creds-run: %d case replays\n", ncases)
	return nil
}
