package archive

import (
	"archive/tar"
	"bytes"
	"compress/gzip"
	"encoding/json"
	"fmt"
	"math/rand"
	"os"
	"path/filepath"
	"sort"
	"strings"

	"sigs.k8s.io/yaml"

	"helm.sh/helm/v4/pkg/action"
	chart "helm.sh/helm/v4/pkg/chart/v2"
	"helm.sh/helm/v4/pkg/chart/v2/loader"
	chartutil "helm.sh/helm/v4/pkg/chart/v2/util"
)

// ---- abstract cases exported by MC_ArchiveC15 ---------------------------------------------------

type Chart15 struct {
	API      string `json:"api"`
	Meta     string `json:"meta"`
	Values   string `json:"values"`
	Schema   bool   `json:"schema"`
	Lock     string `json:"lock"`
	Deps     string `json:"deps"`
	Declared bool   `json:"declared"`
	PC       string `json:"pc"`
	CC       string `json:"cc"`
}

type Rule15 struct {
	Kind string   `json:"kind"`
	Arg  []string `json:"arg"`
	Dir  bool     `json:"dir"`
	Neg  bool     `json:"neg"`
}

type Case15 struct {
	ID       int        `json:"id"`
	Fam      string     `json:"fam"` // roundtrip invalid ignore
	Chart    Chart15    `json:"chart"`
	Name     string     `json:"name"`    // invalid: name class
	Version  string     `json:"version"` // invalid: version class
	Rules    []Rule15   `json:"rules"`
	Universe [][]string `json:"universe"`
	Ignored  [][]string `json:"ignored"`
	Loadable bool       `json:"loadable"`
	List     PkgList15  `json:"list"`
}

// PkgList15: one action.Package value / one `helm package` command line for several charts
type PkgList15 struct {
	Vers  []string `json:"vers"` // version token of each chart (va, vb)
	Apps  []string `json:"apps"` // appVersion token of each chart (aa, ab)
	VFlag bool     `json:"vflag"`
	AFlag bool     `json:"aflag"`
	Route string   `json:"route"` // action | cmd
}

// PkgListObs: what came out for the j-th chart of the list (tokens: va vb vflag / aa ab aflag / other / none)
type PkgListObs struct {
	Err     bool       `json:"err"`
	Msg     string     `json:"msg"`
	NameOk  bool       `json:"nameOk"`
	FileVer string     `json:"fileVer"` // version in the name of the archive written for this chart
	MetaVer string     `json:"metaVer"` // version in the loaded Chart.yaml
	MetaApp string     `json:"metaApp"`
	Diffs   []DiffItem `json:"diffs"` // everything else, against LoadDir of the chart's directory
}

// ---- observations -----------------------------------------------------------------------------------

type DiffItem struct {
	Field  string `json:"field"` // metadata values rawvalues schema lock templates files deps
	Chart  string `json:"chart"` // "" for the top chart, else dependency path a/b
	Name   string `json:"name"`
	Kind   string `json:"kind"`  // value content missing extra
	Class  string `json:"class"` // path class of the file in the abstract case, "base" otherwise
	CC     string `json:"cc"`
	BOM    bool   `json:"bom"`    // the loaded content is the original minus a leading UTF-8 BOM
	Prov   bool   `json:"prov"`   // lexical: the name is charts/....prov
	Nest   int    `json:"nest"`   // lexical: number of "charts" directory components in the name
	TplDot bool   `json:"tpldot"` // lexical: the name matches the default ignore rule templates/.?* (a dotfile directly in templates/)
}

type OpObs struct {
	Ran   bool       `json:"ran"`
	Err   bool       `json:"err"`
	Panic bool       `json:"panic"`
	Msg   string     `json:"msg"`
	Diffs []DiffItem `json:"diffs"`
}

type Obs15 struct {
	ID     int     `json:"id"`
	Rep    int     `json:"rep"`
	Fam    string  `json:"fam"`
	Chart  Chart15 `json:"chart"`
	GenErr string  `json:"genErr"` // the generated files are not a chart LoadFiles accepts (harness problem, not a verdict)

	SaveLoad OpObs    `json:"saveload"` // Load(Save(c)) vs c
	SaveDir  OpObs    `json:"savedir"`  // LoadDir(SaveDir(c)) vs c
	DirArch  OpObs    `json:"dirarch"`  // LoadDir(d) vs LoadArchive(tar(d))
	Package  OpObs    `json:"package"`  // Load(Package(d)) vs LoadDir(d)
	PkgHas   []string `json:"pkgHas"`   // path classes of the case's files present in the packaged archive

	// invalid name / version
	Name        string `json:"name"`
	Version     string `json:"version"`
	SaveErr     bool   `json:"saveErr"`
	SaveFiles   int    `json:"saveFiles"` // files left in the output directory by Save
	PkgErr      bool   `json:"pkgErr"`
	PkgFiles    int    `json:"pkgFiles"`
	PkgVerErr   bool   `json:"pkgVerErr"` // Package with an invalid --version override on a valid chart
	PkgVerFiles int    `json:"pkgVerFiles"`

	// ignore rules
	Rules     []Rule15   `json:"rules"`
	RuleText  string     `json:"ruleText"`
	DirErr    bool       `json:"dirErr"`
	DirNames  [][]string `json:"dirNames"`  // abstract paths of the files of LoadDir(d)
	ArchNames [][]string `json:"archNames"` // ... of LoadArchive(tar(d))
	PkgNames  [][]string `json:"pkgNames"`  // ... of the entries of the archive written by action.Package
	PkgDiffer [][]string `json:"pkgDiffer"` // kept files whose bytes differ between d and the package (Chart.yaml is re-marshalled: excluded)

	// list of charts through one Package value
	List    PkgList15    `json:"list"`
	PkgList []PkgListObs `json:"pkgList"`
}

func newOp() OpObs { return OpObs{Diffs: []DiffItem{}} }

// ---- content ------------------------------------------------------------------------------------------

var bom = []byte{0xEF, 0xBB, 0xBF}

func textLines(r *rand.Rand, nl string) []byte {
	var b bytes.Buffer
	n := 1 + r.Intn(4)
	for i := 0; i < n; i++ {
		b.WriteString(trickyString(r))
		b.WriteString(nl)
	}
	if r.Intn(3) == 0 {
		b.WriteString("no newline at end")
	}
	return b.Bytes()
}

func content(cc string, r *rand.Rand) []byte {
	switch cc {
	case "empty":
		return []byte{}
	case "text":
		return textLines(r, "\n")
	case "binary":
		n := 1 + r.Intn(300)
		b := make([]byte, n)
		r.Read(b)
		b[0] = []byte{0x00, 0xFF, 0xFE, 0x1F, 0x89}[r.Intn(5)]
		if n > 4 && r.Intn(2) == 0 {
			copy(b[1:], []byte{0xEF, 0xBB}) // a truncated BOM in the middle
		}
		return b
	case "bom":
		return append(append([]byte{}, bom...), textLines(r, "\n")...)
	case "bombinary": // not valid UTF-8, but the first three bytes are EF BB BF
		n := 2 + r.Intn(200)
		b := make([]byte, n)
		r.Read(b)
		b[0] = []byte{0xFF, 0xFE, 0xC0, 0x80, 0xF8}[r.Intn(5)] // never legal as the start of a UTF-8 sequence
		return append(append([]byte{}, bom...), b...)
	case "crlf":
		return textLines(r, "\r\n")
	}
	panic(harnessError{fmt.Errorf("content class %s", cc)})
}

var tricky = []string{"plain", "with: colon", "# hash", "- dash", "'single'", "\"double\"", "ünï cødé 名前", "yes", "null", "~", "1e3",
	"0x1F", "1.10", "true", "{brace}", "[bracket]", "a|b", "a>b", "%percent", "@at", "`tick`", "tab\there", "*star", "&amp", "!bang",
	"emoji 🙂", "back\\slash", "{{ .Values.x }}", "key=value", "trailing."}

func trickyString(r *rand.Rand) string {
	s := tricky[r.Intn(len(tricky))]
	if r.Intn(3) == 0 {
		s += " " + tricky[r.Intn(len(tricky))]
	}
	return s
}

func semver(r *rand.Rand) string {
	v := fmt.Sprintf("%d.%d.%d", r.Intn(3), r.Intn(20), r.Intn(100))
	switch r.Intn(5) {
	case 0:
		v += "-rc." + fmt.Sprint(r.Intn(9))
	case 1:
		v += "+build." + fmt.Sprint(r.Intn(99))
	case 2:
		v += "-beta.1+exp.sha.5114f85"
	}
	return v
}

// ---- chart generation (from FILES: the starting chart is what loader.LoadFiles makes of them) -----------

type fileClass struct{ pc, cc string }

type gen15 struct {
	r     *rand.Rand
	c     Chart15
	class map[string]fileClass // "<dep path>|<file name>" -> classes
}

func (g *gen15) metadata(name, version, api string, full bool, deps []map[string]interface{}) []byte {
	m := map[string]interface{}{"apiVersion": api, "name": name, "version": version}
	if full {
		m["description"] = trickyString(g.r)
		m["keywords"] = []string{trickyString(g.r), trickyString(g.r)}
		m["home"] = "https://example.com/" + chartishName(g.r, nil)
		m["sources"] = []string{"https://example.com/src", trickyString(g.r)}
		m["icon"] = "https://example.com/icon.png"
		m["appVersion"] = []string{"1.10", "v2.0.0", "latest", "1e3", "0123"}[g.r.Intn(5)]
		m["deprecated"] = g.r.Intn(2) == 0
		m["annotations"] = map[string]string{"example.com/" + chartishName(g.r, nil): trickyString(g.r), "k": ""}
		m["kubeVersion"] = ">=1.2" + fmt.Sprint(g.r.Intn(9)) + ".0-0"
		m["maintainers"] = []map[string]string{{"name": "ann " + trickyString(g.r), "email": "a@example.com", "url": "https://example.com/a"},
			{"name": "bob"}}
		if api == "v2" {
			m["type"] = []string{"application", "library"}[g.r.Intn(2)]
		}
		if g.r.Intn(2) == 0 {
			m["tags"] = "t1"
			m["condition"] = "x.enabled"
		}
	}
	if deps != nil && api == "v2" {
		m["dependencies"] = deps
	}
	b, err := yaml.Marshal(m)
	must(err)
	if g.r.Intn(3) == 0 {
		b = append([]byte("# generated\n"), b...)
	}
	return b
}

func (g *gen15) focusName(pc string) string {
	rn := chartishName(g.r, map[string]bool{"charts": true, "templates": true, "values": true, "chart": true, "requirements": true})
	switch pc {
	case "top":
		return []string{rn + ".md", strings.ToUpper(rn), rn + ".txt", rn}[g.r.Intn(4)]
	case "nested":
		return "files/" + chartishName(g.r, nil) + "/" + chartishName(g.r, nil) + "/" + rn + ".dat"
	case "unicode":
		u := []string{"ünï-" + rn, "名前" + rn, "файл " + rn, "emoji🙂" + rn, "sp ace " + rn}[g.r.Intn(5)]
		if g.r.Intn(2) == 0 {
			return "docs/" + u + ".txt"
		}
		return u
	case "dotfile":
		return "." + rn
	case "template":
		return "templates/" + []string{rn + ".yaml", rn + ".tpl", "sub/" + rn + ".yaml", rn + ".txt", rn}[g.r.Intn(5)]
	case "dotdotprefix": // begins with two dots but is not the parent directory: a valid name
		return []string{".." + rn, "..data-" + rn + "/" + chartishName(g.r, nil), "templates/.." + rn + ".yaml", "files/.." + rn,
			"..." + rn, ".." + rn + "/sub/" + chartishName(g.r, nil) + ".txt"}[g.r.Intn(6)]
	case "dotdotname": // consecutive dots that are not a path element: a valid file name
		return []string{"templates/v1..v2-" + rn + ".yaml", "docs/changes-1.0..2.0-" + rn + ".md", rn + "..bak", "files/a..b/" + rn,
			"templates/" + rn + "...yaml", "docs/..." + rn}[g.r.Intn(6)]
	case "dotunder": // "._name" at the top: an ordinary chart file
		return "._" + rn
	case "dotundernested":
		return []string{"files/", "docs/" + chartishName(g.r, nil) + "/", "config/"}[g.r.Intn(3)] + "._" + rn
	case "tpldot":
		return "templates/." + rn
	case "chartsentry":
		return "charts/" + rn + "-1.0.0.tgz.prov"
	}
	panic(harnessError{fmt.Errorf("path class %s", pc)})
}

func valuesYAML(vc string, r *rand.Rand) []byte {
	q := func(s string) string { b, _ := json.Marshal(s); return string(b) }
	base := fmt.Sprintf("# comment kept only in raw\nreplicas: %d\nname: %s\nnested:\n  flag: %v\n  list:\n  - 1\n  - %s\nbig: 12345678901234567890\nfloat: 1.50\n",
		r.Intn(9), q(trickyString(r)), r.Intn(2) == 0, q(trickyString(r)))
	switch vc {
	case "text":
		return []byte(base)
	case "bom":
		return append(append([]byte{}, bom...), base...)
	case "crlf":
		return []byte(strings.ReplaceAll(base, "\n", "\r\n"))
	case "multidoc":
		return []byte(base + "---\nsecond: doc\nnested:\n  more: true\n")
	}
	panic(harnessError{fmt.Errorf("values class %s", vc)})
}

func lockYAMLFor(deps []string, shape string, r *rand.Rand) []byte {
	var b strings.Builder
	if shape == "emptydeps" {
		deps = nil
	}
	if len(deps) == 0 {
		b.WriteString([]string{"dependencies: []\n", ""}[r.Intn(2)])
	} else {
		b.WriteString("dependencies:\n")
		for _, d := range deps {
			fmt.Fprintf(&b, "- name: %s\n  repository: https://example.com/charts\n  version: 0.1.0\n", d)
		}
	}
	if shape != "nodigest" {
		fmt.Fprintf(&b, "digest: sha256:%064x\n", r.Int63())
	} else if r.Intn(2) == 0 {
		b.WriteString("digest: \"\"\n")
	}
	if shape != "nogenerated" {
		fmt.Fprintf(&b, "generated: \"2021-0%d-1%dT0%d:00:00.%09dZ\"\n", 1+r.Intn(9), r.Intn(9), r.Intn(9), r.Intn(999999999))
	}
	if b.Len() == 0 {
		b.WriteString("{}\n")
	}
	return []byte(b.String())
}

// chartFiles returns the files of one chart of the tree. level 0 = the case's chart.
func (g *gen15) chartFiles(name, depPath string, level int, shape string) []*loader.BufferedFile {
	var fs []*loader.BufferedFile
	add := func(n string, d []byte) { fs = append(fs, &loader.BufferedFile{Name: n, Data: d}) }
	c := g.c
	api := c.API
	if level > 0 && g.r.Intn(2) == 0 {
		api = []string{"v1", "v2"}[g.r.Intn(2)]
	}
	// dependencies of this chart according to the shape
	type sub struct {
		name, kind, inner string
	}
	var subs []sub
	switch shape {
	case "dir":
		subs = []sub{{"sub1", "dir", "none"}}
	case "tgz":
		subs = []sub{{"sub1", "tgz", "none"}}
	case "dirdir":
		subs = []sub{{"sub1", "dir", "dir"}}
	case "dirtgz":
		subs = []sub{{"sub1", "dir", "tgz"}}
	case "tgzdir":
		subs = []sub{{"sub1", "tgz", "dir"}}
	case "tgztgz":
		subs = []sub{{"sub1", "tgz", "tgz"}}
	case "dirandtgz":
		subs = []sub{{"sub1", "dir", "none"}, {"sub2", "tgz", "none"}}
	}
	for i := range subs {
		subs[i].name = subs[i].name + chartishName(g.r, nil)
		if level > 0 {
			subs[i].name = "leaf" + chartishName(g.r, nil)
		}
	}
	var declared []map[string]interface{}
	var depNames []string
	for _, s := range subs {
		depNames = append(depNames, s.name)
		d := map[string]interface{}{"name": s.name, "version": "0.1.0", "repository": "https://example.com/charts"}
		if g.r.Intn(2) == 0 {
			d["condition"] = s.name + ".enabled"
			d["tags"] = []string{"front", trickyString(g.r)}
			d["import-values"] = []interface{}{"data", map[string]string{"child": "a.b", "parent": "c"}}
		}
		declared = append(declared, d)
	}
	useDecl := level == 0 && c.Declared && len(subs) > 0
	var dd []map[string]interface{}
	if useDecl {
		dd = declared
	}
	version := semver(g.r)
	if level > 0 {
		version = "0.1.0"
	}
	add("Chart.yaml", g.metadata(name, version, api, level == 0 && c.Meta == "full", dd))
	if useDecl && api == "v1" {
		b, _ := yaml.Marshal(map[string]interface{}{"dependencies": declared})
		add("requirements.yaml", b)
	}
	if level == 0 {
		if c.Values != "none" {
			add("values.yaml", valuesYAML(c.Values, g.r))
		}
		if c.Schema {
			add("values.schema.json", []byte(fmt.Sprintf("{\n  \"$schema\": \"http://json-schema.org/draft-07/schema#\",\n  \"title\": %q,\n  \"type\": \"object\"\n}\n", trickyString(g.r))))
		}
		if c.Lock != "none" {
			ln := "Chart.lock"
			if api == "v1" {
				ln = "requirements.lock"
			}
			add(ln, lockYAMLFor(depNames, c.Lock, g.r))
		}
	} else {
		add("values.yaml", valuesYAML("text", g.r))
	}
	add("templates/"+chartishName(g.r, nil)+".yaml", []byte("kind: ConfigMap\nmetadata:\n  name: {{ .Release.Name }}-"+name+"\n"))
	if g.r.Intn(2) == 0 {
		add("templates/_helpers.tpl", []byte("{{- define \"x\" -}}x{{- end -}}\n"))
	}
	if g.r.Intn(2) == 0 {
		add("templates/NOTES.txt", textLines(g.r, "\n"))
	}
	fn := g.focusName(c.PC)
	add(fn, content(c.CC, g.r))
	g.class[depPath+"|"+fn] = fileClass{c.PC, c.CC}

	for _, s := range subs {
		sp := s.name
		if depPath != "" {
			sp = depPath + "/" + s.name
		}
		sf := g.chartFiles(s.name, sp, level+1, s.inner)
		if s.kind == "dir" {
			for _, f := range sf {
				add("charts/"+s.name+"/"+f.Name, f.Data)
			}
		} else {
			add("charts/"+s.name+"-0.1.0.tgz", tarOf(s.name, sf, g.r))
		}
	}
	// order must not matter to the loader
	g.r.Shuffle(len(fs), func(i, j int) { fs[i], fs[j] = fs[j], fs[i] })
	return fs
}

// tarOf is the harness's own tar(d): every file, under top/, with archive/tar-independent raw headers.
func tarOf(top string, files []*loader.BufferedFile, r *rand.Rand) []byte {
	var es []RawEntry
	if r.Intn(2) == 0 {
		es = append(es, RawEntry{Name: top + "/", Type: '5'})
	}
	for _, f := range files {
		es = append(es, RawEntry{Name: top + "/" + f.Name, Type: '0', Data: f.Data, Carrier: "ustar"})
	}
	t, _ := BuildTar(es)
	return Gz(t, gzip.BestSpeed)
}

func cloneFiles(fs []*loader.BufferedFile) []*loader.BufferedFile {
	out := make([]*loader.BufferedFile, len(fs))
	for i, f := range fs {
		out[i] = &loader.BufferedFile{Name: f.Name, Data: append([]byte{}, f.Data...)}
	}
	return out
}

func writeTree(dir string, fs []*loader.BufferedFile) {
	for _, f := range fs {
		p := filepath.Join(dir, filepath.FromSlash(f.Name))
		must(os.MkdirAll(filepath.Dir(p), 0755))
		must(os.WriteFile(p, f.Data, 0644))
	}
}

// ---- comparer (byte equality is decided here, DESIGN 8) ---------------------------------------------------

func jsonOf(v interface{}) string {
	b, err := json.Marshal(v)
	if err != nil {
		return "ERR:" + err.Error()
	}
	return string(b)
}

func rawValues(c *chart.Chart) ([]byte, bool) {
	for _, f := range c.Raw {
		if f.Name == "values.yaml" {
			return f.Data, true
		}
	}
	return nil, false
}

func (g *gen15) diffFiles(field, depPath string, a, b []*chart.File, out *[]DiffItem) {
	am, bm := map[string][]byte{}, map[string][]byte{}
	for _, f := range a {
		am[f.Name] = f.Data
	}
	for _, f := range b {
		bm[f.Name] = f.Data
	}
	names := map[string]bool{}
	for n := range am {
		names[n] = true
	}
	for n := range bm {
		names[n] = true
	}
	ns := make([]string, 0, len(names))
	for n := range names {
		ns = append(ns, n)
	}
	sort.Strings(ns)
	for _, n := range ns {
		cl := fileClass{"base", ""}
		if c, ok := g.class[depPath+"|"+n]; ok {
			cl = c
		}
		x, inA := am[n]
		y, inB := bm[n]
		it := DiffItem{Field: field, Chart: depPath, Name: n, Class: cl.pc, CC: cl.cc}
		it.Prov = strings.HasPrefix(n, "charts/") && strings.HasSuffix(n, ".prov")
		if rest := strings.TrimPrefix(n, "templates/."); rest != n && rest != "" && !strings.Contains(rest, "/") {
			it.TplDot = true
		}
		parts := strings.Split(n, "/")
		for _, p := range parts[:len(parts)-1] {
			if p == "charts" {
				it.Nest++
			}
		}
		switch {
		case !inB:
			it.Kind = "missing"
		case !inA:
			it.Kind = "extra"
		case !bytes.Equal(x, y):
			it.Kind = "content"
			it.BOM = bytes.HasPrefix(x, bom) && bytes.Equal(x[3:], y)
		default:
			continue
		}
		*out = append(*out, it)
	}
}

// diffCharts reports where b (the chart that came back) differs from a (the original).
func (g *gen15) diffCharts(a, b *chart.Chart, depPath string, out *[]DiffItem) {
	if jsonOf(a.Metadata) != jsonOf(b.Metadata) {
		*out = append(*out, DiffItem{Field: "metadata", Chart: depPath, Kind: "value", Class: "base"})
	}
	av, bv := a.Values, b.Values
	if len(av) == 0 && len(bv) == 0 {
		av, bv = nil, nil
	}
	if jsonOf(av) != jsonOf(bv) {
		*out = append(*out, DiffItem{Field: "values", Chart: depPath, Kind: "value", Class: "base"})
	}
	ar, aok := rawValues(a)
	br, bok := rawValues(b)
	if aok != bok {
		k := "missing"
		if bok {
			k = "extra"
		}
		*out = append(*out, DiffItem{Field: "rawvalues", Chart: depPath, Name: "values.yaml", Kind: k, Class: "base"})
	} else if !bytes.Equal(ar, br) {
		*out = append(*out, DiffItem{Field: "rawvalues", Chart: depPath, Name: "values.yaml", Kind: "content", Class: "base",
			CC: g.c.Values, BOM: bytes.HasPrefix(ar, bom) && bytes.Equal(ar[3:], br)})
	}
	if !bytes.Equal(a.Schema, b.Schema) {
		*out = append(*out, DiffItem{Field: "schema", Chart: depPath, Name: "values.schema.json", Kind: "content", Class: "base"})
	}
	switch {
	case a.Lock == nil && b.Lock == nil:
	case a.Lock != nil && b.Lock == nil:
		*out = append(*out, DiffItem{Field: "lock", Chart: depPath, Kind: "missing", Class: "base"})
	case a.Lock == nil && b.Lock != nil:
		*out = append(*out, DiffItem{Field: "lock", Chart: depPath, Kind: "extra", Class: "base"})
	default:
		if a.Lock.Digest != b.Lock.Digest || !a.Lock.Generated.Equal(b.Lock.Generated) || (len(a.Lock.Dependencies)+len(b.Lock.Dependencies) > 0 && jsonOf(a.Lock.Dependencies) != jsonOf(b.Lock.Dependencies)) {
			*out = append(*out, DiffItem{Field: "lock", Chart: depPath, Kind: "value", Class: "base"})
		}
	}
	g.diffFiles("templates", depPath, a.Templates, b.Templates, out)
	g.diffFiles("files", depPath, a.Files, b.Files, out)
	ad, bd := map[string]*chart.Chart{}, map[string]*chart.Chart{}
	for _, d := range a.Dependencies() {
		ad[d.Name()] = d
	}
	for _, d := range b.Dependencies() {
		bd[d.Name()] = d
	}
	for n, d := range ad {
		p := n
		if depPath != "" {
			p = depPath + "/" + n
		}
		if e, ok := bd[n]; ok {
			g.diffCharts(d, e, p, out)
		} else {
			*out = append(*out, DiffItem{Field: "deps", Chart: depPath, Name: n, Kind: "missing", Class: "base"})
		}
	}
	for n := range bd {
		if _, ok := ad[n]; !ok {
			*out = append(*out, DiffItem{Field: "deps", Chart: depPath, Name: n, Kind: "extra", Class: "base"})
		}
	}
	if len(a.Dependencies()) != len(ad) || len(b.Dependencies()) != len(bd) {
		*out = append(*out, DiffItem{Field: "deps", Chart: depPath, Name: "", Kind: "value", Class: "base"})
	}
}

func (o *OpObs) run(fn func() error) bool {
	o.Ran = true
	err, pan, msg := protect(fn)
	o.Err = err != nil || pan
	o.Panic = pan
	if len(msg) > 160 {
		msg = msg[:160]
	}
	o.Msg = msg
	return !o.Err
}

func countFiles(dir string) int {
	n := 0
	filepath.Walk(dir, func(p string, fi os.FileInfo, err error) error {
		if err == nil && !fi.IsDir() {
			n++
		}
		return nil
	})
	return n
}

// ---- the three families ------------------------------------------------------------------------------------

func RunCase15(c Case15, seed int64, rep int, base string) Obs15 {
	r := rand.New(rand.NewSource(seedFor(seed, c.ID, rep, "c15")))
	o := Obs15{ID: c.ID, Rep: rep, Fam: c.Fam, Chart: c.Chart, SaveLoad: newOp(), SaveDir: newOp(), DirArch: newOp(), Package: newOp(),
		PkgHas: []string{}, Name: c.Name, Version: c.Version, Rules: c.Rules, DirNames: [][]string{}, ArchNames: [][]string{},
		PkgNames: [][]string{}, PkgDiffer: [][]string{}, List: c.List, PkgList: []PkgListObs{}}
	if o.List.Vers == nil {
		o.List.Vers = []string{}
	}
	if o.List.Apps == nil {
		o.List.Apps = []string{}
	}
	if o.Rules == nil {
		o.Rules = []Rule15{}
	}
	work, err := os.MkdirTemp(base, fmt.Sprintf("k%d_%d_", c.ID, rep))
	must(err)
	defer os.RemoveAll(work)
	switch c.Fam {
	case "roundtrip":
		runRoundTrip(c, r, work, &o)
	case "invalid":
		runInvalid(c, r, work, &o)
	case "ignore":
		runIgnore(c, r, work, &o)
	case "pkglist":
		runPkgList(c, r, work, &o)
	default:
		panic(harnessError{fmt.Errorf("family %s", c.Fam)})
	}
	return o
}

func runRoundTrip(c Case15, r *rand.Rand, work string, o *Obs15) {
	g := &gen15{r: r, c: c.Chart, class: map[string]fileClass{}}
	name := "top" + chartishName(r, nil)
	files := g.chartFiles(name, "", 0, c.Chart.Deps)
	c0, err := loader.LoadFiles(cloneFiles(files))
	if err != nil {
		o.GenErr = err.Error()
		return
	}

	// (1) Load(Save(c)) = c
	var c1 *chart.Chart
	if o.SaveLoad.run(func() error {
		p, err := chartutil.Save(c0, filepath.Join(work, "save"))
		if err != nil {
			return err
		}
		c1, err = loader.Load(p)
		return err
	}) {
		g.diffCharts(c0, c1, "", &o.SaveLoad.Diffs)
	}

	// (2) LoadDir(SaveDir(c)) = c
	var c2 *chart.Chart
	if o.SaveDir.run(func() error {
		d := filepath.Join(work, "savedir")
		must(os.MkdirAll(d, 0755))
		if err := chartutil.SaveDir(c0, d); err != nil {
			return err
		}
		var err error
		c2, err = loader.LoadDir(filepath.Join(d, c0.Name()))
		return err
	}) {
		g.diffCharts(c0, c2, "", &o.SaveDir.Diffs)
	}

	// (3) LoadDir(d) = LoadArchive(tar(d)) modulo ignored files
	d := filepath.Join(work, "tree", name)
	writeTree(d, files)
	var cd, ca *chart.Chart
	if o.DirArch.run(func() error {
		var err error
		if ca, err = loader.LoadArchive(bytes.NewReader(tarOf(name, files, r))); err != nil {
			return fmt.Errorf("archive: %w", err)
		}
		if cd, err = loader.LoadDir(d); err != nil {
			return fmt.Errorf("dir: %w", err)
		}
		return nil
	}) {
		g.diffCharts(ca, cd, "", &o.DirArch.Diffs)
	}

	// (4) action.Package(d): loads back equal to LoadDir(d); ignored files are not in the archive
	var cp *chart.Chart
	var pkgPath string
	if o.Package.run(func() error {
		p := action.NewPackage()
		p.Destination = filepath.Join(work, "pkg")
		var err error
		if pkgPath, err = p.Run(d, nil); err != nil {
			return err
		}
		cp, err = loader.Load(pkgPath)
		return err
	}) && cd != nil {
		g.diffCharts(cd, cp, "", &o.Package.Diffs)
		if data, err := os.ReadFile(pkgPath); err == nil {
			for _, n := range tarNames(data) {
				parts := strings.SplitN(n, "/", 2)
				if len(parts) == 2 {
					if cl, ok := g.class["|"+parts[1]]; ok {
						o.PkgHas = append(o.PkgHas, cl.pc)
					}
				}
			}
		}
	}
}

// tarNames lists the member names of a tar.gz with the standard library reader
func tarNames(gz []byte) []string {
	var out []string
	zr, err := gzip.NewReader(bytes.NewReader(gz))
	if err != nil {
		return out
	}
	tr := tar.NewReader(zr)
	for {
		h, err := tr.Next()
		if err != nil {
			break
		}
		out = append(out, h.Name)
	}
	return out
}

func invalidName(cl string, r *rand.Rand) string {
	switch cl {
	case "empty":
		return ""
	case "slash":
		return chartishName(r, nil) + "/" + chartishName(r, nil)
	case "dotdotslash":
		return "../" + chartishName(r, nil)
	}
	return "ok" + chartishName(r, nil)
}

func invalidVersion(cl string, r *rand.Rand) string {
	switch cl {
	case "empty":
		return ""
	case "garbage":
		return []string{"not-a-version", "1.2.3.4.5", "one.two.three", "1.2.x!", "latest"}[r.Intn(5)]
	}
	return semver(r)
}

func runInvalid(c Case15, r *rand.Rand, work string, o *Obs15) {
	g := &gen15{r: r, c: Chart15{API: c.Chart.API, Meta: "min", Values: "text", Lock: "none", Deps: "none", PC: "top", CC: "text"},
		class: map[string]fileClass{}}
	good := "ok" + chartishName(r, nil)
	files := g.chartFiles(good, "", 0, "none")
	c0, err := loader.LoadFiles(cloneFiles(files))
	if err != nil {
		o.GenErr = err.Error()
		return
	}
	badName, badVer := invalidName(c.Name, r), invalidVersion(c.Version, r)
	// Save of an in-memory chart whose name / version is invalid
	c0.Metadata.Name, c0.Metadata.Version = badName, badVer
	sd := filepath.Join(work, "save")
	must(os.MkdirAll(sd, 0755))
	e, pan, _ := protect(func() error { _, err := chartutil.Save(c0, sd); return err })
	o.SaveErr = e != nil || pan
	o.SaveFiles = countFiles(sd)

	// action.Package of a directory whose Chart.yaml carries the invalid name / version
	d := filepath.Join(work, "tree", "chartdir")
	for _, f := range files {
		if f.Name == "Chart.yaml" {
			b, _ := yaml.Marshal(map[string]interface{}{"apiVersion": c.Chart.API, "name": badName, "version": badVer})
			f.Data = b
		}
	}
	writeTree(d, files)
	pd := filepath.Join(work, "pkg")
	must(os.MkdirAll(pd, 0755))
	e, pan, _ = protect(func() error {
		p := action.NewPackage()
		p.Destination = pd
		_, err := p.Run(d, nil)
		return err
	})
	o.PkgErr = e != nil || pan
	o.PkgFiles = countFiles(pd)

	// action.Package --version <invalid> on a valid chart
	o.PkgVerErr = true
	if c.Version != "ok" && badVer != "" {
		files2 := g.chartFiles(good, "", 0, "none")
		d2 := filepath.Join(work, "tree2", good)
		writeTree(d2, files2)
		pd2 := filepath.Join(work, "pkg2")
		must(os.MkdirAll(pd2, 0755))
		e, pan, _ = protect(func() error {
			p := action.NewPackage()
			p.Destination = pd2
			p.Version = badVer
			_, err := p.Run(d2, nil)
			return err
		})
		o.PkgVerErr = e != nil || pan
		o.PkgVerFiles = countFiles(pd2)
	}
}

// ---- ignore rules ----------------------------------------------------------------------------------------------

var fixedAtoms = map[string]bool{"Chart.yaml": true, "values.yaml": true, "templates": true, "charts": true, ".helmignore": true}

func extOf(atom string) string {
	if i := strings.LastIndex(atom, "."); i > 0 {
		return atom[i:]
	}
	return ""
}

func runIgnore(c Case15, r *rand.Rand, work string, o *Obs15) {
	// concretise the atoms of the directory universe, keeping extensions and leading dots
	fwd, back := map[string]string{}, map[string]string{}
	used := map[string]bool{}
	conc := func(a string) string {
		if fixedAtoms[a] {
			return a
		}
		if v, ok := fwd[a]; ok {
			return v
		}
		for {
			stem := chartishName(r, nil)
			if r.Intn(4) == 0 {
				stem += "_" + []string{"ü", "é", "名"}[r.Intn(3)]
			}
			v := stem + extOf(a)
			if strings.HasPrefix(a, ".") {
				v = "." + stem
			}
			if a == "dep" {
				v = "dep" + chartishName(r, nil)
			}
			if !used[v] && !fixedAtoms[v] {
				used[v] = true
				fwd[a], back[v] = v, a
				return v
			}
		}
	}
	cpath := func(p []string) string {
		out := make([]string, len(p))
		for i, a := range p {
			out[i] = conc(a)
		}
		return strings.Join(out, "/")
	}
	abstract := func(n string) []string {
		parts := strings.Split(n, "/")
		for i, p := range parts {
			if a, ok := back[p]; ok {
				parts[i] = a
			}
		}
		return parts
	}
	// the rule file, in the documented syntax
	var lines []string
	for _, ru := range c.Rules {
		var pat string
		switch ru.Kind {
		case "name":
			pat = conc(ru.Arg[0])
		case "ext":
			pat = "*." + ru.Arg[0]
		case "rooted":
			pat = "/" + cpath(ru.Arg)
		case "rootedext":
			pat = "/*." + ru.Arg[0]
		case "path":
			pat = cpath(ru.Arg)
		default:
			panic(harnessError{fmt.Errorf("rule kind %s", ru.Kind)})
		}
		if ru.Dir {
			pat += "/"
		}
		if ru.Neg {
			pat = "!" + pat
		}
		lines = append(lines, pat)
	}
	r.Shuffle(len(lines), func(i, j int) { lines[i], lines[j] = lines[j], lines[i] })
	var txt strings.Builder
	for _, l := range lines {
		switch r.Intn(4) {
		case 0:
			txt.WriteString("# a comment\n\n")
		case 1:
			l = "  " + l + " \t"
		}
		txt.WriteString(l + "\n")
	}
	o.RuleText = txt.String()

	var files []*loader.BufferedFile
	depName := conc("dep")
	for _, p := range c.Universe {
		n := cpath(p)
		var data []byte
		switch {
		case n == "Chart.yaml":
			data = []byte("apiVersion: v2\nname: ign\nversion: 0.1.0\n")
		case n == "charts/"+depName+"/Chart.yaml":
			data = []byte("apiVersion: v2\nname: " + depName + "\nversion: 0.1.0\n")
		case n == "values.yaml":
			data = []byte("a: 1\n")
		case n == ".helmignore":
			data = []byte(o.RuleText)
		case strings.HasSuffix(n, ".yaml"):
			data = []byte("kind: ConfigMap\n")
		default:
			data = content([]string{"text", "binary", "crlf"}[r.Intn(3)], r)
		}
		files = append(files, &loader.BufferedFile{Name: n, Data: data})
	}
	d := filepath.Join(work, "tree", "ign")
	writeTree(d, files)
	orig := map[string][]byte{}
	for _, f := range files {
		orig[f.Name] = f.Data
	}
	collect := func(ch *chart.Chart) [][]string {
		out := [][]string{}
		for _, f := range ch.Raw {
			out = append(out, abstract(f.Name))
		}
		return out
	}
	e, pan, _ := protect(func() error {
		cd, err := loader.LoadDir(d)
		if err != nil {
			return err
		}
		o.DirNames = collect(cd)
		return nil
	})
	o.DirErr = e != nil || pan
	protect(func() error {
		ca, err := loader.LoadArchive(bytes.NewReader(tarOf("ign", files, r)))
		if err != nil {
			return err
		}
		o.ArchNames = collect(ca)
		return nil
	})
	pd := filepath.Join(work, "pkg")
	must(os.MkdirAll(pd, 0755))
	e, pan, _ = protect(func() error {
		p := action.NewPackage()
		p.Destination = pd
		path, err := p.Run(d, nil)
		if err != nil {
			return err
		}
		data, err := os.ReadFile(path)
		if err != nil {
			return err
		}
		fs, err := loader.LoadArchiveFiles(bytes.NewReader(data))
		if err != nil {
			return err
		}
		for _, f := range fs {
			o.PkgNames = append(o.PkgNames, abstract(f.Name))
			if want, ok := orig[f.Name]; ok && !strings.HasSuffix(f.Name, "Chart.yaml") && !bytes.Equal(want, f.Data) {
				o.PkgDiffer = append(o.PkgDiffer, abstract(f.Name))
			}
		}
		return nil
	})
	o.PkgErr = e != nil || pan
	o.PkgFiles = countFiles(pd)
}
