package archive

import (
	"bytes"
	"fmt"
	"io"
	"log/slog"
	"math/rand"
	"os"
	"path/filepath"
	"strings"
	"sync"

	"sigs.k8s.io/yaml"

	"helm.sh/helm/v4/pkg/action"
	chart "helm.sh/helm/v4/pkg/chart/v2"
	"helm.sh/helm/v4/pkg/chart/v2/loader"
	helmcmd "helm.sh/helm/v4/pkg/cmd"
)

// pkg/cmd keeps its settings in package globals: one command line at a time.
var cliMu sync.Mutex

func runCLI(args []string) error {
	cliMu.Lock()
	defer cliMu.Unlock()
	var out bytes.Buffer
	root, err := helmcmd.NewRootCmdWithConfigForVerif(new(action.Configuration), &out, args)
	slog.SetDefault(slog.New(slog.NewTextHandler(io.Discard, nil))) // the root command installs helm's own logger
	if err != nil {
		return err
	}
	root.SetArgs(args)
	root.SetOut(&out)
	root.SetErr(io.Discard)
	return root.Execute()
}

// runPkgList packages a LIST of chart directories with ONE action.Package value (route "action": several Run
// calls, as an SDK user does) or one `helm package d1 d2 ...` command line (route "cmd": the real pkg/cmd
// command, flag parsing included), then loads every archive written and reports under which version /
// appVersion each chart came out.
func runPkgList(c Case15, r *rand.Rand, work string, o *Obs15) {
	l := c.List
	n := len(l.Vers)
	// distinct concrete versions / appVersions for the tokens
	conc := map[string]string{}
	used := map[string]bool{}
	for _, t := range []string{"va", "vb", "vflag"} {
		for {
			v := semver(r)
			if !used[v] {
				used[v] = true
				conc[t] = v
				break
			}
		}
	}
	for i, t := range []string{"aa", "ab", "aflag"} {
		conc[t] = fmt.Sprintf("%d.%d-app%s", i+1, r.Intn(50), chartishName(r, nil))
	}
	back := map[string]string{}
	for k, v := range conc {
		back[v] = k
	}
	tok := func(v string) string {
		if v == "" {
			return "none"
		}
		if t, ok := back[v]; ok {
			return t
		}
		return "other"
	}

	names := make([]string, n)
	dirs := make([]string, n)
	usedNames := map[string]bool{}
	for j := 0; j < n; j++ {
		g := &gen15{r: r, c: Chart15{API: []string{"v1", "v2"}[r.Intn(2)], Meta: "min", Values: "text", Lock: "none", Deps: "none",
			PC: []string{"top", "nested", "dotfile"}[r.Intn(3)], CC: []string{"text", "binary", "crlf"}[r.Intn(3)]}, class: map[string]fileClass{}}
		names[j] = fmt.Sprintf("c%d%s", j, chartishName(r, usedNames))
		usedNames[names[j]] = true
		files := g.chartFiles(names[j], "", 0, "none")
		for _, f := range files {
			if f.Name == "Chart.yaml" {
				b, err := yaml.Marshal(map[string]interface{}{"apiVersion": g.c.API, "name": names[j], "version": conc[l.Vers[j]],
					"appVersion": conc[l.Apps[j]], "description": trickyString(r)})
				must(err)
				f.Data = b
			}
		}
		dirs[j] = filepath.Join(work, "trees", names[j])
		writeTree(dirs[j], files)
	}
	dest := filepath.Join(work, "out")
	must(os.MkdirAll(dest, 0755))

	errs := make([]string, n)
	switch l.Route {
	case "action":
		p := action.NewPackage()
		p.Destination = dest
		if l.VFlag {
			p.Version = conc["vflag"]
		}
		if l.AFlag {
			p.AppVersion = conc["aflag"]
		}
		for j := 0; j < n; j++ {
			e, pan, msg := protect(func() error { _, err := p.Run(dirs[j], nil); return err })
			if e != nil || pan {
				errs[j] = "error: " + msg
			}
		}
	case "cmd":
		args := []string{"package"}
		args = append(args, dirs...)
		args = append(args, "--destination", dest)
		if l.VFlag {
			args = append(args, "--version", conc["vflag"])
		}
		if l.AFlag {
			args = append(args, "--app-version", conc["aflag"])
		}
		e, pan, msg := protect(func() error { return runCLI(args) })
		if e != nil || pan {
			for j := range errs {
				errs[j] = "error: " + msg
			}
		}
	default:
		panic(harnessError{fmt.Errorf("route %s", l.Route)})
	}

	o.PkgFiles = countFiles(dest)
	ents, _ := os.ReadDir(dest)
	for j := 0; j < n; j++ {
		po := PkgListObs{FileVer: "none", MetaVer: "none", MetaApp: "none", Diffs: []DiffItem{}}
		if errs[j] != "" {
			po.Err = true
			po.Msg = errs[j]
			if len(po.Msg) > 160 {
				po.Msg = po.Msg[:160]
			}
		}
		// the archive(s) written for this chart: <name>-<version>.tgz
		var mine []string
		for _, e := range ents {
			if strings.HasPrefix(e.Name(), names[j]+"-") && strings.HasSuffix(e.Name(), ".tgz") {
				mine = append(mine, e.Name())
			}
		}
		if len(mine) == 1 {
			po.FileVer = tok(strings.TrimSuffix(strings.TrimPrefix(mine[0], names[j]+"-"), ".tgz"))
			var cp, cd *chart.Chart
			e, pan, msg := protect(func() error {
				var err error
				if cp, err = loader.Load(filepath.Join(dest, mine[0])); err != nil {
					return err
				}
				cd, err = loader.LoadDir(dirs[j])
				return err
			})
			if e != nil || pan {
				po.Err = true
				po.Msg = "load: " + msg
			} else {
				po.NameOk = cp.Metadata.Name == names[j]
				po.MetaVer = tok(cp.Metadata.Version)
				po.MetaApp = tok(cp.Metadata.AppVersion)
				// everything else must be what LoadDir makes of the directory
				cp.Metadata.Version, cd.Metadata.Version = "", ""
				cp.Metadata.AppVersion, cd.Metadata.AppVersion = "", ""
				g := &gen15{r: r, class: map[string]fileClass{}}
				g.diffCharts(cd, cp, "", &po.Diffs)
			}
		} else if len(mine) > 1 {
			po.FileVer = "other"
			po.Msg = "several archives: " + strings.Join(mine, ",")
		}
		o.PkgList = append(o.PkgList, po)
	}
}
