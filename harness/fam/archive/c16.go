package archive

import (
	"bytes"
	"compress/gzip"
	"encoding/json"
	"fmt"
	"hash/fnv"
	"io"
	"math/rand"
	"os"
	"path/filepath"
	"regexp"
	"strings"

	chart "helm.sh/helm/v4/pkg/chart/v2"
	"helm.sh/helm/v4/pkg/chart/v2/loader"
	chartutil "helm.sh/helm/v4/pkg/chart/v2/util"
	"helm.sh/helm/v4/pkg/downloader"
	"helm.sh/helm/v4/pkg/getter"
	"helm.sh/helm/v4/pkg/plugin/installer"
)

// ---- abstract cases exported by MC_ArchiveC16 ----------------------------------------------

type Entry16 struct {
	Comps []string `json:"comps"`
	Seps  []string `json:"seps"`
	Type  string   `json:"type"`
	Size  int64    `json:"size"`
	Short bool     `json:"short"`
	Enc   string   `json:"enc"`
	Link  string   `json:"link"` // Linkname class of a symlink / hardlink entry: inside outside sibling updeep any
}

type PathT struct {
	P []string `json:"p"`
	T string   `json:"t"`
}

type Spec16 struct {
	Err     bool       `json:"err"`
	Touched []PathT    `json:"touched"`
	Names   [][]string `json:"names"`
	KF      []string   `json:"kf"`
}

type Case16 struct {
	ID     int       `json:"id"`
	Fam    string    `json:"fam"`
	Op     string    `json:"op"`
	Stream []Entry16 `json:"stream"`
	Layout string    `json:"layout"`
	CName  []string  `json:"cname"`
	API    string    `json:"api"`
	Lock   string    `json:"lock"`
	FLim   int64     `json:"flim"`
	TLim   int64     `json:"tlim"`
	Expect string    `json:"expect"`
	Spec   Spec16    `json:"spec"`
}

// ---- observations ---------------------------------------------------------------------------

type NameObs struct {
	Raw   string   `json:"raw"`
	Comps []string `json:"comps"` // lexical classes of the "/"-separated components
}

type Obs16 struct {
	ID        int        `json:"id"`
	Rep       int        `json:"rep"`
	Fam       string     `json:"fam"`
	Op        string     `json:"op"`
	Layout    string     `json:"layout"`
	Lock      string     `json:"lock"`
	API       string     `json:"api"`
	Err       bool       `json:"err"`
	Panic     bool       `json:"panic"`
	Msg       string     `json:"msg"`
	Dest      []string   `json:"dest"`
	Allowed   [][]string `json:"allowed"` // roots under which changes are legitimate (dest; for Update also helm's own cache)
	Changes   []Change   `json:"changes"`
	Leaks     []Change   `json:"leaks"` // created inside dest, resolving outside: symlinks / hard links
	Names     []NameObs  `json:"names"`
	Sizes     []int64    `json:"sizes"`
	FLim      int64      `json:"flim"`
	TLim      int64      `json:"tlim"`
	Consumed  int64      `json:"consumed"`
	Bound     int64      `json:"bound"`
	FirstOver int        `json:"firstOver"` // 1-based index of the first entry that crosses a limit (0: none)
	HdrBound  int64      `json:"hdrBound"`  // stream offset of that entry's DATA + one flate window: what may be read when it is rejected from its header
	SpecErr   bool       `json:"specErr"`
	SpecOut   []PathT    `json:"specOut"`  // the model's touched files (and directories made by dir entries)
	SpecName  [][]string `json:"specName"` // the model's exposed names
	SpecKF    []string   `json:"specKF"`
	Conc      string     `json:"conc"` // the concrete header names, for the reader of a replay
}

// ---- concretisation ---------------------------------------------------------------------------

var pool = []rune("abcdefghijklmnopqrstuvwxyzABCDEFGHIJKLMNOPQRSTUVWXYZ0123456789 _-.~$%+@!#&()=,;'")
var uni = []string{"ü", "ñ", "名", "前", "ф", "й", "λ", "é", "ß", "中", "🙂"}

func seedFor(seed int64, id, rep int, salt string) int64 {
	h := fnv.New64a()
	fmt.Fprintf(h, "%d/%d/%d/%s", seed, id, rep, salt)
	return int64(h.Sum64() & 0x7fffffffffffffff)
}

// normalName draws a component that is "normal" for every layer involved: not empty, ".", "..", no
// separator, no colon, no NUL; one in ten begins with two dots ("..x": an ordinary name).
func normalName(r *rand.Rand, avoid map[string]bool) string {
	for {
		var sb strings.Builder
		n := 1 + r.Intn(9)
		for i := 0; i < n; i++ {
			if r.Intn(7) == 0 {
				sb.WriteString(uni[r.Intn(len(uni))])
			} else {
				sb.WriteRune(pool[r.Intn(len(pool))])
			}
		}
		s := sb.String()
		if r.Intn(10) == 0 {
			s = ".." + s // a name that merely BEGINS with two dots is a normal component (loader: /repo 653de95)
		}
		if s == "." || s == ".." || avoid[s] || avoid[strings.ToLower(s)] {
			continue
		}
		if strings.TrimSpace(s) != s {
			continue // sanitizeString / YAML would not keep it
		}
		return s
	}
}

var chartNameRe = regexp.MustCompile(`^[a-z0-9][a-z0-9-]*$`)

func chartishName(r *rand.Rand, avoid map[string]bool) string {
	for {
		n := 1 + r.Intn(8)
		b := make([]byte, n)
		for i := range b {
			b[i] = "abcdefghijklmnopqrstuvwxyz0123456789-"[r.Intn(37)]
		}
		s := string(b)
		if chartNameRe.MatchString(s) && !avoid[s] {
			return s
		}
	}
}

type conc16 struct {
	fwd  map[string]string // atom -> concrete
	back map[string]string
}

func newConc(r *rand.Rand) *conc16 {
	c := &conc16{fwd: map[string]string{}, back: map[string]string{}}
	avoid := map[string]bool{"dest": true, "out": true, "canary": true, "d": true, "f": true, "new": true, "home": true,
		"destx": true, "inner": true, "charts": true, "templates": true, "chart.yaml": true, "values.yaml": true,
		"chart.lock": true, "requirements.yaml": true, "requirements.lock": true, "values.schema.json": true, "stub": true,
		"tmp": true}
	for _, a := range []string{"n1", "n2"} {
		v := normalName(r, avoid)
		avoid[v] = true
		avoid[strings.ToLower(v)] = true
		c.fwd[a] = v
	}
	for _, a := range []string{"top", "chart"} {
		v := chartishName(r, avoid)
		avoid[v] = true
		c.fwd[a] = v
	}
	c.fwd["C:"] = string(rune("CDcdzZ"[r.Intn(6)])) + ":"
	for k, v := range c.fwd {
		c.back[v] = k
	}
	return c
}

func (c *conc16) comp(a string) string {
	if v, ok := c.fwd[a]; ok {
		return v
	}
	return a
}

func (c *conc16) name(e Entry16) string {
	var sb strings.Builder
	for i, a := range e.Comps {
		if i > 0 {
			sb.WriteString(e.Seps[i-1])
		}
		sb.WriteString(c.comp(a))
	}
	return sb.String()
}

// ---- sandbox -------------------------------------------------------------------------------------

type sandbox struct {
	root    string
	sbComps []string
}

func must(err error) {
	if err != nil {
		panic(harnessError{err})
	}
}

type harnessError struct{ err error }

func newSandbox(base string, id, rep int) *sandbox {
	root, err := os.MkdirTemp(base, fmt.Sprintf("c%d_%d_", id, rep))
	must(err)
	root, err = filepath.EvalSymlinks(root)
	must(err)
	s := &sandbox{root: root}
	s.sbComps = strings.Split(strings.TrimPrefix(root, "/"), "/")
	must(os.MkdirAll(filepath.Join(root, "dest"), 0755))
	must(os.MkdirAll(filepath.Join(root, "destx"), 0755)) // a sibling sharing the name prefix
	must(os.WriteFile(filepath.Join(root, "destx", "canary"), []byte("canary-destx"), 0644))
	must(os.MkdirAll(filepath.Join(root, "out", "d"), 0755))
	must(os.WriteFile(filepath.Join(root, "out", "canary"), []byte("canary-out"), 0644))
	must(os.WriteFile(filepath.Join(root, "out", "d", "f"), []byte("canary-out-d-f"), 0644))
	must(os.WriteFile(filepath.Join(root, "canary-root"), []byte("canary-root"), 0644))
	return s
}

func (s *sandbox) p(comps ...string) string {
	return filepath.Join(append([]string{s.root}, comps...)...)
}

// plant creates the destination layout of Archive.tla LayoutFS below base
func (s *sandbox) plant(layout string, base []string, c *conc16) {
	b := s.p(base...)
	n1 := filepath.Join(b, c.fwd["n1"])
	mk := func() { must(os.MkdirAll(b, 0755)) }
	switch layout {
	case "empty":
	case "dir":
		mk()
		must(os.Mkdir(n1, 0755))
	case "leafOutFile":
		mk()
		must(os.Symlink(s.p("out", "canary"), n1))
	case "parentOutDir":
		mk()
		must(os.Symlink(s.p("out", "d"), n1))
	case "relOutDir":
		mk()
		must(os.Symlink(strings.Repeat("../", len(base))+"out/d", n1))
	case "nestedLeaf":
		mk()
		must(os.Mkdir(n1, 0755))
		must(os.Symlink(s.p("out", "canary"), filepath.Join(n1, c.fwd["n2"])))
	case "dangling":
		mk()
		must(os.Symlink(s.p("out", "new"), n1))
	case "chartLink":
		must(os.Symlink(s.p("out", "d"), b))
	default:
		panic(harnessError{fmt.Errorf("unknown layout %s", layout)})
	}
}

// ---- building the stream ------------------------------------------------------------------------

func chartYAML(name string, pad int) []byte {
	q, _ := json.Marshal(name)
	y := fmt.Sprintf("apiVersion: v2\nname: %s\nversion: 0.1.0\n", q)
	if pad > 0 {
		if pad < len(y)+2 {
			panic(harnessError{fmt.Errorf("cannot pad Chart.yaml to %d", pad)})
		}
		y += "#" + strings.Repeat("x", pad-len(y)-2) + "\n"
	}
	return []byte(y)
}

func typeByte(t string) byte {
	switch t {
	case "dir":
		return '5'
	case "symlink":
		return '2'
	case "hardlink":
		return '1'
	case "rega":
		return 0 // the pre-POSIX regular file flag
	case "cont":
		return '7' // tar.TypeCont
	case "vendor":
		return 'Z' // an unknown vendor flag: the body is handed out like a file's
	}
	return '0'
}

func fill(n int64, r *rand.Rand) []byte {
	b := make([]byte, n)
	if n > 65536 {
		for i := range b {
			b[i] = byte('a' + i%23)
		}
		return b
	}
	for i := range b {
		b[i] = byte('a' + r.Intn(26))
	}
	return b
}

func (s *sandbox) stream(c Case16, cc *conc16, r *rand.Rand) (raw []RawEntry, names []string) {
	for _, e := range c.Stream {
		re := RawEntry{Type: typeByte(e.Type), Carrier: "ustar"}
		if e.Type == "vendor" {
			re.Type = "ZQYW"[r.Intn(4)]
		}
		if len(e.Comps) == 2 && e.Comps[1] == "Chart.yaml" && e.Comps[0] == "top" {
			re.Name = cc.fwd["top"] + "/Chart.yaml"
			cn := make([]string, len(c.CName))
			for i, a := range c.CName {
				if a == "ABS" {
					cn[i] = s.root // absolute path of the sandbox: "/…/out/d"
				} else {
					cn[i] = cc.comp(a)
				}
			}
			cname := strings.Join(cn, "/")
			pad := 0
			if c.Fam == "size" {
				cname = "c"
				pad = int(e.Size)
			}
			re.Data = chartYAML(cname, pad)
		} else {
			re.Name = cc.name(e)
			if e.Type == "reg" || e.Type == "xheader" || e.Type == "rega" || e.Type == "cont" || e.Type == "vendor" {
				re.Data = fill(e.Size, r)
			}
			if e.Type == "symlink" || e.Type == "hardlink" {
				lk := e.Link
				if lk == "" || lk == "any" {
					lk = []string{"inside", "outside", "sibling", "updeep"}[r.Intn(4)]
				}
				switch lk {
				case "inside":
					re.Link = cc.fwd["n2"]
				case "outside":
					re.Link = s.p("out", "canary")
				case "sibling": // a directory NEXT to dest whose name begins with dest's name
					up := 1
					if e.Type == "symlink" { // relative to the link's own directory
						up = len(e.Comps)
					}
					re.Link = strings.Repeat("../", up) + "destx/canary"
				default:
					re.Link = "../../../../out/canary"
				}
			}
			if e.Type == "xheader" {
				re.Carrier = []string{"pax", "gnu"}[r.Intn(2)]
				re.StubName = cc.fwd["top"] + "/stub"
			}
			if e.Enc == "pax" {
				re.PaxSize = true
			}
			re.Short = e.Short
		}
		raw = append(raw, re)
		names = append(names, re.Name)
	}
	return
}

// ---- lexing of exposed names (classification is lexical; the judgement is CleanRel in TLA+) -------

var driveRe = regexp.MustCompile(`^[a-zA-Z]:$`)

func lexName(n string) NameObs {
	o := NameObs{Raw: n, Comps: []string{}}
	for _, c := range strings.Split(n, "/") {
		switch {
		case c == "" || c == "." || c == "..":
			o.Comps = append(o.Comps, c)
		case driveRe.MatchString(c):
			o.Comps = append(o.Comps, "C:")
		case strings.ContainsAny(c, "\\\x00"):
			o.Comps = append(o.Comps, "BS")
		default:
			o.Comps = append(o.Comps, "n")
		}
	}
	return o
}

func exposedNames(c *chart.Chart, acc *[]string) {
	if c == nil {
		return
	}
	for _, f := range c.Raw {
		*acc = append(*acc, f.Name)
	}
	for _, f := range c.Templates {
		*acc = append(*acc, f.Name)
	}
	for _, f := range c.Files {
		*acc = append(*acc, f.Name)
	}
	for _, d := range c.Dependencies() {
		exposedNames(d, acc)
	}
}

// ---- running one case ---------------------------------------------------------------------------

func protect(fn func() error) (err error, panicked bool, msg string) {
	defer func() {
		if x := recover(); x != nil {
			if he, ok := x.(harnessError); ok {
				panic(he)
			}
			panicked = true
			msg = fmt.Sprint(x)
		}
	}()
	err = fn()
	if err != nil {
		msg = err.Error()
	}
	return
}

// RunCase16 runs one abstract case once with the given concretisation seed.
func RunCase16(c Case16, seed int64, rep int, base string) Obs16 {
	r := rand.New(rand.NewSource(seedFor(seed, c.ID, rep, "c16")))
	cc := newConc(r)
	sb := newSandbox(base, c.ID, rep)
	defer os.RemoveAll(sb.root)
	o := Obs16{ID: c.ID, Rep: rep, Fam: c.Fam, Op: c.Op, Layout: c.Layout, Lock: c.Lock, API: c.API,
		Dest: []string{"dest"}, Allowed: [][]string{{"dest"}}, Changes: []Change{}, Leaks: []Change{}, Names: []NameObs{}, Sizes: []int64{},
		FLim: c.FLim, TLim: c.TLim, SpecErr: c.Spec.Err, SpecOut: []PathT{}, SpecName: c.Spec.Names, SpecKF: c.Spec.KF}
	if o.SpecName == nil {
		o.SpecName = [][]string{}
	}
	if o.SpecKF == nil {
		o.SpecKF = []string{}
	}
	for _, t := range c.Spec.Touched {
		if t.T == "file" || (c.Op == "extract" && t.T == "dir") {
			o.SpecOut = append(o.SpecOut, t)
		}
	}
	if c.Op == "lock" {
		runLock(c, cc, sb, &o)
		return o
	}
	if c.Op == "download" {
		runDownload(c, cc, sb, r, &o)
		return o
	}
	baseDir := []string{"dest"}
	if c.Op == "expand" {
		baseDir = []string{"dest", cc.fwd["chart"]}
	}
	if c.Op != "load" {
		sb.plant(c.Layout, baseDir, cc)
	}
	raw, names := sb.stream(c, cc, r)
	o.Conc = strings.Join(names, " | ")
	tarBytes, offs := BuildTar(raw)
	level := gzip.NoCompression
	if c.Fam != "size" && r.Intn(2) == 0 {
		level = gzip.BestSpeed
	}
	gz := Gz(tarBytes, level)

	var before Snapshot
	if c.Op != "load" {
		before = Snap(sb.root)
	}
	dest := sb.p("dest")
	var err error
	switch c.Op {
	case "extract":
		err, o.Panic, o.Msg = protect(func() error {
			return (&installer.TarGzExtractor{}).Extract(bytes.NewBuffer(gz), dest)
		})
	case "expand":
		err, o.Panic, o.Msg = protect(func() error { return chartutil.Expand(dest, bytes.NewReader(gz)) })
	case "load":
		cr := &CountingReader{B: gz}
		var ch *chart.Chart
		err, o.Panic, o.Msg = protect(func() error {
			var e error
			ch, e = loader.LoadArchive(cr)
			return e
		})
		o.Consumed = int64(cr.N)
		if err == nil && !o.Panic {
			var ns []string
			exposedNames(ch, &ns)
			seen := map[string]bool{}
			for _, n := range ns {
				if !seen[n] {
					seen[n] = true
					o.Names = append(o.Names, lexName(n))
				}
			}
		}
		// sizes as declared = delivered (a short stream still declares its size)
		var cum int64
		first := -1
		for i, e := range c.Stream {
			sz := e.Size
			if e.Type == "dir" {
				sz = 0
			}
			o.Sizes = append(o.Sizes, sz)
			if first < 0 && (sz > c.FLim || cum+sz > c.TLim) {
				first = i
			}
			if first < 0 {
				cum += sz
			}
		}
		if first >= 0 {
			lim := c.FLim
			if c.TLim-cum < lim {
				lim = c.TLim - cum
			}
			d := int64(offs[first]) + lim
			// stored gzip blocks: 10 header bytes + 5 per block; one flate window + one io.Copy buffer of slack
			o.Bound = 10 + d + 5*(d/32768+4) + 2*32768 + 1024
			o.FirstOver = first + 1
			h := int64(offs[first])
			o.HdrBound = 10 + h + 5*(h/32768+4) + 32768 + 1024
		}
	}
	o.Err = err != nil || o.Panic
	if len(o.Msg) > 120 {
		o.Msg = o.Msg[:120]
	}
	if c.Op != "load" {
		after := Snap(sb.root)
		o.Changes = Diff(before, after)
		for i := range o.Changes {
			o.Changes[i].Path = Abstract(o.Changes[i].Raw, cc.back, sb.sbComps)
		}
		o.Leaks = Leaks(sb.root, "dest", before, after)
		for i := range o.Leaks {
			o.Leaks[i].Path = Abstract(o.Leaks[i].Raw, cc.back, sb.sbComps)
		}
	}
	return o
}

// ---- Manager.Update with a local dependency and something planted at the lock path ---------------

const lockYAML = "dependencies:\n- name: dep\n  repository: file://../out/dep\n  version: 0.1.0\ndigest: sha256:0000000000000000000000000000000000000000000000000000000000000000\ngenerated: \"2020-01-01T00:00:00Z\"\n"

func runLock(c Case16, cc *conc16, sb *sandbox, o *Obs16) {
	dest := sb.p("dest")
	depReq := "dependencies:\n- name: dep\n  version: \">=0.1.0\"\n  repository: file://../out/dep\n"
	lockName := "Chart.lock"
	if c.API == "v1" {
		lockName = "requirements.lock"
		must(os.WriteFile(filepath.Join(dest, "Chart.yaml"), []byte("apiVersion: v1\nname: parent\nversion: 0.1.0\n"), 0644))
		must(os.WriteFile(filepath.Join(dest, "requirements.yaml"), []byte(depReq), 0644))
	} else {
		must(os.WriteFile(filepath.Join(dest, "Chart.yaml"), []byte("apiVersion: v2\nname: parent\nversion: 0.1.0\n"+depReq), 0644))
	}
	must(os.MkdirAll(sb.p("out", "dep"), 0755))
	must(os.WriteFile(sb.p("out", "dep", "Chart.yaml"), []byte("apiVersion: v2\nname: dep\nversion: 0.1.0\n"), 0644))
	must(os.WriteFile(filepath.Join(dest, "inner"), []byte(lockYAML), 0644))
	must(os.MkdirAll(sb.p("home"), 0755))
	lp := filepath.Join(dest, lockName)
	switch c.Lock {
	case "absent":
	case "file":
		must(os.WriteFile(lp, []byte(lockYAML), 0644))
	case "linkOutEmpty":
		must(os.WriteFile(sb.p("out", "canary"), []byte{}, 0644))
		must(os.Symlink(sb.p("out", "canary"), lp))
	case "linkOutLock":
		must(os.WriteFile(sb.p("out", "canary"), []byte(lockYAML), 0644))
		must(os.Symlink(sb.p("out", "canary"), lp))
	case "linkOutJunk":
		must(os.WriteFile(sb.p("out", "canary"), []byte("{{ not: [yaml\n\t- at all"), 0644))
		must(os.Symlink(sb.p("out", "canary"), lp))
	case "linkOutDangling":
		must(os.Symlink(sb.p("out", "new"), lp))
	case "linkInFile":
		must(os.Symlink("inner", lp))
	default:
		panic(harnessError{fmt.Errorf("unknown lock layout %s", c.Lock)})
	}
	o.Allowed = [][]string{{"dest"}, {"home"}}
	o.Conc = lockName + " <- " + c.Lock
	before := Snap(sb.root)
	m := &downloader.Manager{
		Out:              io.Discard,
		ChartPath:        dest,
		SkipUpdate:       true,
		Getters:          getter.Providers{},
		RepositoryConfig: sb.p("home", "repositories.yaml"),
		RepositoryCache:  sb.p("home", "cache"),
	}
	err, pan, msg := protect(func() error { return m.Update() })
	o.Panic, o.Msg = pan, msg
	o.Err = err != nil || pan
	if len(o.Msg) > 120 {
		o.Msg = o.Msg[:120]
	}
	after := Snap(sb.root)
	o.Changes = Diff(before, after)
	back := map[string]string{"dep-0.1.0.tgz": "dep.tgz"}
	for i := range o.Changes {
		o.Changes[i].Path = Abstract(o.Changes[i].Raw, back, sb.sbComps)
	}
	o.Leaks = Leaks(sb.root, "dest", before, after)
	for i := range o.Leaks {
		o.Leaks[i].Path = Abstract(o.Leaks[i].Raw, back, sb.sbComps)
	}
}
