package archive

import (
	"bytes"
	"io"
	"math/rand"
	"os"
	"strings"

	"helm.sh/helm/v4/pkg/downloader"
	"helm.sh/helm/v4/pkg/getter"
)

// fakeGetter answers every URL with the same bytes: no network.
type fakeGetter struct{ data []byte }

func (g fakeGetter) Get(_ string, _ ...getter.Option) (*bytes.Buffer, error) {
	return bytes.NewBuffer(append([]byte{}, g.data...)), nil
}

// runDownload: ChartDownloader.DownloadTo of a full chart URL whose last path segment(s) are built from the
// abstract components and separators (literal, once and twice percent-encoded) into dest.
func runDownload(c Case16, cc *conc16, sb *sandbox, r *rand.Rand, o *Obs16) {
	e := c.Stream[0]
	// a URL-safe concrete name for n1 (the separators under test are the only special characters)
	n1 := chartishName(r, map[string]bool{"dest": true, "out": true, "home": true, "destx": true, "charts": true}) + "-0.1.0.tgz"
	delete(cc.back, cc.fwd["n1"])
	cc.fwd["n1"] = n1
	cc.back[n1] = "n1"
	sb.plant(c.Layout, []string{"dest"}, cc)
	must(os.MkdirAll(sb.p("home"), 0755))
	var sbu strings.Builder
	for i, a := range e.Comps {
		if i > 0 {
			sbu.WriteString(e.Seps[i-1])
		}
		sbu.WriteString(cc.comp(a))
	}
	url := "http://charts.example.com/charts/" + sbu.String()
	o.Conc = url
	o.Allowed = [][]string{{"dest"}, {"home"}}
	tgz := tarOfChartYAML(cc.fwd["chart"])
	dl := downloader.ChartDownloader{
		Out:    io.Discard,
		Verify: downloader.VerifyNever,
		Getters: getter.Providers{{Schemes: []string{"http", "https"}, New: func(_ ...getter.Option) (getter.Getter, error) {
			return fakeGetter{tgz}, nil
		}}},
		RepositoryConfig: sb.p("home", "repositories.yaml"),
		RepositoryCache:  sb.p("home", "cache"),
	}
	before := Snap(sb.root)
	err, pan, msg := protect(func() error {
		_, _, err := dl.DownloadTo(url, "", sb.p("dest"))
		return err
	})
	o.Panic, o.Msg = pan, msg
	o.Err = err != nil || pan
	if len(o.Msg) > 120 {
		o.Msg = o.Msg[:120]
	}
	after := Snap(sb.root)
	o.Leaks = Leaks(sb.root, "dest", before, after)
	for i := range o.Leaks {
		o.Leaks[i].Path = Abstract(o.Leaks[i].Raw, cc.back, sb.sbComps)
	}
	o.Changes = Diff(before, after)
	for i := range o.Changes {
		p := Abstract(o.Changes[i].Raw, cc.back, sb.sbComps)
		// a file directly in dest under any other name than n1's is the model's "dlname"
		if len(p) == 2 && p[0] == "dest" && p[1] != "n1" && o.Changes[i].T == "file" {
			p[1] = "dlname"
		}
		o.Changes[i].Path = p
	}
}

func tarOfChartYAML(name string) []byte {
	t, _ := BuildTar([]RawEntry{{Name: name + "/Chart.yaml", Type: '0', Data: chartYAML(name, 0), Carrier: "ustar"}})
	return Gz(t, 1)
}
