package archive

import (
	"crypto/sha256"
	"encoding/hex"
	"io"
	"os"
	"path/filepath"
	"sort"
	"strings"
	"syscall"
)

var errEOF = io.EOF

// Node is one entry of a snapshot (never following links).
type Node struct {
	Type   string // file dir link other
	Hash   string
	Target string
	Size   int64
	Ino    uint64 // not part of the comparison: used to find hard links to files outside the destination
	Nlink  uint64
}

func sameNode(x, y Node) bool {
	return x.Type == y.Type && x.Hash == y.Hash && x.Target == y.Target && x.Size == y.Size
}

type Snapshot map[string]Node

func Snap(root string) Snapshot {
	s := Snapshot{}
	filepath.Walk(root, func(p string, fi os.FileInfo, err error) error {
		if err != nil {
			return nil
		}
		rel, _ := filepath.Rel(root, p)
		if rel == "." {
			return nil
		}
		n := Node{Size: fi.Size()}
		if st, ok := fi.Sys().(*syscall.Stat_t); ok {
			n.Ino, n.Nlink = st.Ino, uint64(st.Nlink)
		}
		switch {
		case fi.Mode()&os.ModeSymlink != 0:
			n.Type = "link"
			n.Target, _ = os.Readlink(p)
			n.Size = 0
		case fi.IsDir():
			n.Type = "dir"
			n.Size = 0
		case fi.Mode().IsRegular():
			n.Type = "file"
			if data, err := os.ReadFile(p); err == nil {
				h := sha256.Sum256(data)
				n.Hash = hex.EncodeToString(h[:])
			}
		default:
			n.Type = "other"
		}
		s[rel] = n
		return nil
	})
	return s
}

// Change is one difference between two snapshots.
type Change struct {
	Path []string `json:"path"` // abstract components relative to the sandbox root
	Raw  string   `json:"raw"`
	Kind string   `json:"kind"` // created modified deleted
	T    string   `json:"t"`    // file dir link other
}

func Diff(a, b Snapshot) []Change {
	out := []Change{}
	keys := map[string]bool{}
	for k := range a {
		keys[k] = true
	}
	for k := range b {
		keys[k] = true
	}
	ks := make([]string, 0, len(keys))
	for k := range keys {
		ks = append(ks, k)
	}
	sort.Strings(ks)
	for _, k := range ks {
		x, inA := a[k]
		y, inB := b[k]
		switch {
		case !inA:
			out = append(out, Change{Raw: k, Kind: "created", T: y.Type})
		case !inB:
			out = append(out, Change{Raw: k, Kind: "deleted", T: x.Type})
		case !sameNode(x, y):
			out = append(out, Change{Raw: k, Kind: "modified", T: y.Type})
		}
	}
	return out
}

// Abstract maps a concrete relative path back to the atoms of the specification: concretised
// names go back to their atom; a copy of the sandbox's own absolute path embedded in the path
// (what securejoin makes of an absolute symlink target) is removed.
func Abstract(rel string, back map[string]string, sbComps []string) []string {
	comps := strings.Split(rel, string(filepath.Separator))
	// remove an embedded copy of the sandbox path
	if len(sbComps) > 0 {
		for i := 0; i+len(sbComps) <= len(comps); i++ {
			match := true
			for j := range sbComps {
				if comps[i+j] != sbComps[j] {
					match = false
					break
				}
			}
			if match {
				comps = append(append([]string{}, comps[:i]...), comps[i+len(sbComps):]...)
				break
			}
		}
	}
	out := make([]string, len(comps))
	for i, c := range comps {
		if a, ok := back[c]; ok {
			out[i] = a
		} else {
			out[i] = c
		}
	}
	return out
}

// Leaks lists what the operation created inside dest that resolves outside it: symlinks (created or retargeted)
// whose target lies outside dest, and files that are hard links to a file outside dest.
func Leaks(root, dest string, before, after Snapshot) []Change {
	out := []Change{}
	inside := func(rel string) bool { return rel == dest || strings.HasPrefix(rel, dest+string(filepath.Separator)) }
	outsideIno := map[uint64]bool{}
	for k, n := range after {
		if !inside(k) && n.Type == "file" {
			outsideIno[n.Ino] = true
		}
	}
	keys := make([]string, 0, len(after))
	for k := range after {
		keys = append(keys, k)
	}
	sort.Strings(keys)
	for _, k := range keys {
		n := after[k]
		if !inside(k) {
			continue
		}
		old, had := before[k]
		if had && sameNode(old, n) && old.Ino == n.Ino {
			continue // planted before the operation
		}
		switch n.Type {
		case "link":
			abs := filepath.Join(root, k)
			res, err := filepath.EvalSymlinks(abs)
			if err != nil {
				res = n.Target
				if !filepath.IsAbs(res) {
					res = filepath.Join(filepath.Dir(abs), res)
				}
			}
			rel, err := filepath.Rel(root, res)
			if err != nil || !inside(rel) {
				out = append(out, Change{Raw: k, Kind: "symlink", T: "link"})
			}
		case "file":
			if n.Nlink > 1 && outsideIno[n.Ino] {
				out = append(out, Change{Raw: k, Kind: "hardlink", T: "file"})
			}
		}
	}
	return out
}
