// Package archive is the Go side of Archive.tla (C15, C16): it concretises the abstract cases that
// TLC enumerates, runs them against the real helm code and records observations for ArchiveObs.tla.
package archive

import (
	"bytes"
	"compress/gzip"
	"fmt"
)

// RawEntry is one tar member written byte by byte (no archive/tar validation in the way).
type RawEntry struct {
	Name     string
	Type     byte   // '0' reg, '5' dir, '2' symlink, '1' hardlink, 'g' global header
	Link     string // link target
	Data     []byte
	Carrier  string // "ustar": name in the header; "pax": PAX path= record; "gnu": GNU long name
	PaxSize  bool   // size carried by a PAX size= record (ustar field 0)
	Short    bool   // stream ends in the middle of this member's data (declared size > delivered)
	StubName string // header name used when the real name travels in an extension header
}

func octal(b []byte, v int64) {
	s := fmt.Sprintf("%0*o", len(b)-1, v)
	copy(b, s)
	b[len(b)-1] = 0
}

func ustarHeader(name string, typ byte, link string, size int64, mode int64) []byte {
	h := make([]byte, 512)
	copy(h[0:100], name)
	octal(h[100:108], mode)
	octal(h[108:116], 0)
	octal(h[116:124], 0)
	octal(h[124:136], size)
	octal(h[136:148], 1600000000)
	h[156] = typ
	copy(h[157:257], link)
	copy(h[257:263], "ustar\x00")
	copy(h[263:265], "00")
	for i := 148; i < 156; i++ {
		h[i] = ' '
	}
	var sum int64
	for _, c := range h {
		sum += int64(c)
	}
	copy(h[148:156], fmt.Sprintf("%06o\x00 ", sum))
	return h
}

func pad512(b *bytes.Buffer, n int) {
	if r := n % 512; r != 0 {
		b.Write(make([]byte, 512-r))
	}
}

func paxRecord(k, v string) string {
	// "<len> k=v\n" where len counts the whole record including itself
	n := len(k) + len(v) + 3
	l := n + len(fmt.Sprint(n))
	if len(fmt.Sprint(l)) != len(fmt.Sprint(n)) {
		l++
	}
	return fmt.Sprintf("%d %s=%s\n", l, k, v)
}

// BuildTar returns the tar bytes and, for each entry, the offset of its data in the stream.
func BuildTar(entries []RawEntry) ([]byte, []int) {
	var b bytes.Buffer
	offs := make([]int, len(entries))
	for i, e := range entries {
		name := e.Name
		size := int64(len(e.Data))
		carrier := e.Carrier
		if carrier == "" || carrier == "ustar" {
			if len(name) > 100 {
				carrier = "pax"
			}
		}
		stub := e.StubName
		if stub == "" {
			stub = "stub"
		}
		var pax string
		if carrier == "pax" {
			pax += paxRecord("path", name)
			name = stub
		}
		hdrSize := size
		if e.PaxSize {
			pax += paxRecord("size", fmt.Sprint(size))
			hdrSize = 0
		}
		if pax != "" {
			b.Write(ustarHeader("PaxHeaders.0/"+stub, 'x', "", int64(len(pax)), 0644))
			b.WriteString(pax)
			pad512(&b, len(pax))
		}
		if carrier == "gnu" {
			ln := name + "\x00"
			b.Write(ustarHeader("././@LongLink", 'L', "", int64(len(ln)), 0644))
			b.WriteString(ln)
			pad512(&b, len(ln))
			name = stub
		}
		if e.Short {
			// the header promises twice what the stream delivers
			b.Write(ustarHeader(name, e.Type, e.Link, size, 0644))
			offs[i] = b.Len()
			b.Write(e.Data[:len(e.Data)/2])
			return b.Bytes(), offs
		}
		b.Write(ustarHeader(name, e.Type, e.Link, hdrSize, 0644))
		offs[i] = b.Len()
		b.Write(e.Data)
		pad512(&b, len(e.Data))
	}
	b.Write(make([]byte, 1024))
	return b.Bytes(), offs
}

// Gz compresses; level gzip.NoCompression gives stored blocks (compressed position ~ decompressed position).
func Gz(data []byte, level int) []byte {
	var b bytes.Buffer
	w, _ := gzip.NewWriterLevel(&b, level)
	w.Write(data)
	w.Close()
	return b.Bytes()
}

// CountingReader counts the bytes pulled from the compressed stream. It implements io.ByteReader so that
// compress/flate reads from it directly (no bufio read-ahead in between).
type CountingReader struct {
	B []byte
	N int
}

func (c *CountingReader) Read(p []byte) (int, error) {
	if c.N >= len(c.B) {
		return 0, errEOF
	}
	n := copy(p, c.B[c.N:])
	c.N += n
	return n, nil
}

func (c *CountingReader) ReadByte() (byte, error) {
	if c.N >= len(c.B) {
		return 0, errEOF
	}
	x := c.B[c.N]
	c.N++
	return x, nil
}
