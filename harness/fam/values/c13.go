package values

import (
	"encoding/json"
	"fmt"
	"regexp"
	"sort"
	"strconv"
	"strings"
	"time"

	"helm.sh/helm/v4/pkg/action"
	chart "helm.sh/helm/v4/pkg/chart/v2"
	"helm.sh/helm/v4/pkg/kube"
	rspb "helm.sh/helm/v4/pkg/release/v1"

	"verif/harness/scen"
)

// ChainStep is one step of a C13 chain (spec/ValuesChain.tla).
type ChainStep struct {
	Op     string `json:"op"`   // install | upgrade | rollback
	Mode   string `json:"mode"` // default | reset | reuse | rtr, or several joined by "+"
	Vals   Tree   `json:"vals"`
	Chart  int    `json:"chart"`  // 1-based index into Defaults
	Target int    `json:"target"` // rollback only
	Fail   bool   `json:"fail"`   // upgrade only: the cluster update fails (the revision is recorded as failed)
	Atomic bool   `json:"atomic"` // upgrade only: --atomic (with fail: helm rolls back by itself)
	Auto   bool   `json:"auto"`   // rollback only: the rollback the preceding atomic upgrade performed itself
}

type Chain struct {
	ID       string `json:"id"`
	Driver   string `json:"driver"` // secret | configmap | memory
	Defaults []Tree `json:"defaults"`
	// SubDefaults[i]: values.yaml of the dependency s1 packaged with chart version i+1 (none: no dependency)
	SubDefaults []Tree      `json:"subdefaults"`
	Steps       []ChainStep `json:"steps"`
}

// RevObs is one stored revision as read back from release storage.
type RevObs struct {
	Rev    int    `json:"rev"`
	Status string `json:"status"`
	Cfg    Tree   `json:"cfg"`    // Release.Config
	Probe  Tree   `json:"probe"`  // .Values as rendered into the revision's manifest
	Chartv Tree   `json:"chartv"` // Release.Chart.Values
}

type StepObs struct {
	OK   bool     `json:"ok"`
	Err  string   `json:"err"`
	Revs []RevObs `json:"revs"` // every stored revision after the step, ascending
}

type ChainObs struct {
	ID    string    `json:"id"`
	Steps []StepObs `json:"steps"`
	Panic string    `json:"panic"`
	Echo  struct {
		Defaults []Tree      `json:"defaults"`
		Steps    []ChainStep `json:"steps"`
	} `json:"echo"`
}

// the probe: a ConfigMap (so that the real kube client builds and applies it) carrying .Values
const probeCM = `apiVersion: v1
kind: ConfigMap
metadata:
  name: probe
data:
  values: {{ toJson .Values | quote }}
`

var probeRe = regexp.MustCompile(`(?m)^  values: (".*")\s*$`)

func probeOf(manifest string) Tree {
	m := probeRe.FindStringSubmatch(manifest)
	if m == nil {
		return Unset()
	}
	s, err := strconv.Unquote(m[1])
	if err != nil {
		return Unset()
	}
	t, err := parseProbe(s)
	if err != nil {
		return Unset()
	}
	return t
}

func chainChart(defaults Tree, sub *Tree) (*chart.Chart, error) {
	levels := []ChartJ{{Name: "root", Vals: defaults}}
	if sub != nil {
		levels = append(levels, ChartJ{Name: "s1", Vals: *sub})
	}
	return BuildChart(levels, map[string]string{"templates/cm.yaml": probeCM}, false)
}

func readRevs(cfg *action.Configuration) []RevObs {
	rels, err := cfg.Releases.History(scen.RelName)
	if err != nil {
		return []RevObs{}
	}
	sort.Slice(rels, func(i, j int) bool { return rels[i].Version < rels[j].Version })
	out := make([]RevObs, 0, len(rels))
	for _, r := range rels {
		out = append(out, revObs(r))
	}
	return out
}

func revObs(r *rspb.Release) RevObs {
	o := RevObs{Rev: r.Version, Cfg: FromGo(r.Config), Probe: probeOf(r.Manifest), Chartv: Unset()}
	if r.Info != nil {
		o.Status = r.Info.Status.String()
	}
	if r.Chart != nil {
		o.Chartv = FromGo(r.Chart.Values)
	}
	if r.Config == nil {
		o.Cfg = Tree{K: "m"}
	}
	if r.Chart != nil && r.Chart.Values == nil {
		o.Chartv = Tree{K: "m"}
	}
	return o
}

// RunChain executes one chain with the real action.Install / Upgrade / Rollback over the simulated
// cluster (every helm invocation gets a fresh Configuration, as separate processes would).
func RunChain(c *Chain) (obs ChainObs) {
	obs.ID = c.ID
	obs.Steps = []StepObs{}
	obs.Echo.Defaults, obs.Echo.Steps = c.Defaults, c.Steps
	defer func() {
		if r := recover(); r != nil {
			obs.Panic = fmt.Sprint(r)
		}
	}()
	drv := c.Driver
	if drv == "" {
		drv = "secret"
	}
	env := scen.NewEnv(scen.ChartLib{}, drv)
	for _, s := range c.Steps {
		so := StepObs{OK: true, Revs: []RevObs{}}
		cfg := env.Config(0)
		var err error
		switch s.Op {
		case "install", "upgrade":
			if s.Chart < 1 || s.Chart > len(c.Defaults) {
				obs.Panic = "harness: chart index out of range"
				return
			}
			var ch *chart.Chart
			var sub *Tree
			if s.Chart <= len(c.SubDefaults) {
				sub = &c.SubDefaults[s.Chart-1]
			}
			ch, err = chainChart(c.Defaults[s.Chart-1], sub)
			if err != nil {
				obs.Panic = "harness: chart does not load: " + err.Error()
				return
			}
			vals := s.Vals.ToMap()
			if s.Op == "install" {
				in := action.NewInstall(cfg)
				in.ReleaseName, in.Namespace = scen.RelName, scen.RelNS
				in.Timeout = 5 * time.Second
				in.WaitStrategy = kube.HookOnlyStrategy // the command line default
				_, err = in.Run(ch, vals)
			} else {
				up := action.NewUpgrade(cfg)
				up.Namespace = scen.RelNS
				up.Timeout = 5 * time.Second
				up.WaitStrategy = kube.HookOnlyStrategy
				// mode: the value flags of this upgrade joined by "+" (several may be given at once)
				for _, fl := range strings.Split(s.Mode, "+") {
					switch fl {
					case "reset":
						up.ResetValues = true
					case "reuse":
						up.ReuseValues = true
					case "rtr":
						up.ResetThenReuseValues = true
					}
				}
				up.Atomic = s.Atomic
				if s.Fail && s.Atomic {
					// only the upgrade's own first request fails; the rollback it triggers goes through
					first := true
					env.FailRes = func(_, id string) bool {
						if id == "probe" && first {
							first = false
							return true
						}
						return false
					}
				} else if s.Fail {
					env.FailRes = func(_, id string) bool { return id == "probe" }
				}
				_, err = up.Run(scen.RelName, ch, vals)
				env.FailRes = nil
			}
		case "rollback":
			if s.Auto {
				break // performed by the preceding atomic upgrade; this step only reads the revisions
			}
			rb := action.NewRollback(cfg)
			rb.Version = s.Target
			rb.Timeout = 5 * time.Second
			rb.WaitStrategy = kube.HookOnlyStrategy
			err = rb.Run(scen.RelName)
		default:
			obs.Panic = "harness: unknown op " + s.Op
			return
		}
		if err != nil {
			so.OK, so.Err = false, err.Error()
		}
		so.Revs = readRevs(env.Config(0))
		if s.Atomic && s.Fail {
			// the revision written by the upgrade's own rollback is shown at the next (auto) step
			var cut []RevObs
			for _, r := range so.Revs {
				if r.Rev <= len(obs.Steps)+1 {
					cut = append(cut, r)
				}
			}
			so.Revs = cut
		}
		obs.Steps = append(obs.Steps, so)
	}
	return
}

// RunChains reads chains (NDJSON) and writes their observations (NDJSON), same order.
func RunChains(in, out string) (int, error) {
	return runLines(in, out, func(line []byte, _ string) ([]byte, error) {
		var c Chain
		if err := json.Unmarshal(line, &c); err != nil {
			return nil, err
		}
		return json.Marshal(RunChain(&c))
	})
}
