// Package values is the Go side of the C04 / C13 checks: it turns the cases TLC enumerated from
// spec/Values*.tla into concrete charts, value files and flag strings, runs the REAL helm code on
// them (values.Options.MergeValues, chartutil.CoalesceValues / ToRenderValues, the template engine,
// action.Install / Upgrade / Rollback over the simulated cluster) and records what it observed.
// It decides nothing: observations go back to TLC (spec/ValuesObs.tla, spec/ValuesChainObs.tla).
package values

import (
	"encoding/json"
	"fmt"
	"math"
	"sort"
	"strconv"
	"strings"
)

// Tree is the tagged form of a value tree shared with the TLA+ modules (spec/Values.tla):
//
//	{"k":"s","s":"i:1"|"s:txt"|"b:true"|"f:1.5"}  scalar      {"k":"n"}  explicit null
//	{"k":"l","l":[tree...]}  list      {"k":"m","m":{key:tree}}  map      {"k":"u"}  not set
//
// (TLC cannot read JSON null and writes an empty map as []).
type Tree struct {
	K string
	S string
	L []Tree
	M map[string]Tree
}

func Unset() Tree { return Tree{K: "u"} }

func (t *Tree) UnmarshalJSON(b []byte) error {
	var raw map[string]json.RawMessage
	if err := json.Unmarshal(b, &raw); err != nil {
		return err
	}
	if err := json.Unmarshal(raw["k"], &t.K); err != nil {
		return fmt.Errorf("tree without kind: %s", b)
	}
	switch t.K {
	case "s":
		return json.Unmarshal(raw["s"], &t.S)
	case "l":
		t.L = []Tree{}
		return json.Unmarshal(raw["l"], &t.L)
	case "m":
		t.M = map[string]Tree{}
		r := strings.TrimSpace(string(raw["m"]))
		if r == "[]" || r == "" {
			return nil
		}
		return json.Unmarshal(raw["m"], &t.M)
	case "n", "u":
		return nil
	}
	return fmt.Errorf("unknown tree kind %q", t.K)
}

func (t Tree) MarshalJSON() ([]byte, error) {
	switch t.K {
	case "s":
		return json.Marshal(map[string]any{"k": "s", "s": t.S})
	case "l":
		l := t.L
		if l == nil {
			l = []Tree{}
		}
		return json.Marshal(map[string]any{"k": "l", "l": l})
	case "m":
		m := t.M
		if m == nil {
			m = map[string]Tree{}
		}
		return json.Marshal(map[string]any{"k": "m", "m": m})
	case "n":
		return []byte(`{"k":"n"}`), nil
	}
	return []byte(`{"k":"u"}`), nil
}

// ToGo builds the Go value helm works on (map[string]interface{}, []interface{}, nil, int64, string, bool).
func (t Tree) ToGo() interface{} {
	switch t.K {
	case "s":
		return scalarToGo(t.S)
	case "l":
		out := make([]interface{}, len(t.L))
		for i, x := range t.L {
			out[i] = x.ToGo()
		}
		return out
	case "m":
		return t.ToMap()
	}
	return nil
}

func (t Tree) ToMap() map[string]interface{} {
	out := make(map[string]interface{}, len(t.M))
	for k, v := range t.M {
		out[k] = v.ToGo()
	}
	return out
}

func scalarToGo(s string) interface{} {
	if len(s) < 2 || s[1] != ':' {
		return s
	}
	switch s[0] {
	case 'i':
		n, _ := strconv.ParseInt(s[2:], 10, 64)
		return n
	case 'b':
		return s[2:] == "true"
	case 'f':
		f, _ := strconv.ParseFloat(s[2:], 64)
		return f
	}
	return s[2:]
}

// FromGo is the abstraction of an observed Go value. Every integral number (int, int64, float64,
// json.Number - the loaders and the JSON round trips of release storage differ in which they
// produce) is the same scalar "i:N".
func FromGo(v interface{}) Tree {
	switch x := v.(type) {
	case nil:
		return Tree{K: "n"}
	case map[string]interface{}:
		m := make(map[string]Tree, len(x))
		for k, e := range x {
			m[k] = FromGo(e)
		}
		return Tree{K: "m", M: m}
	case []interface{}:
		l := make([]Tree, len(x))
		for i, e := range x {
			l[i] = FromGo(e)
		}
		return Tree{K: "l", L: l}
	case string:
		return Tree{K: "s", S: "s:" + x}
	case bool:
		return Tree{K: "s", S: "b:" + strconv.FormatBool(x)}
	case int:
		return Tree{K: "s", S: "i:" + strconv.Itoa(x)}
	case int64:
		return Tree{K: "s", S: "i:" + strconv.FormatInt(x, 10)}
	case float64:
		if x == math.Trunc(x) && math.Abs(x) < 1e15 {
			return Tree{K: "s", S: "i:" + strconv.FormatInt(int64(x), 10)}
		}
		return Tree{K: "s", S: "f:" + strconv.FormatFloat(x, 'g', -1, 64)}
	case json.Number:
		if n, err := x.Int64(); err == nil {
			return Tree{K: "s", S: "i:" + strconv.FormatInt(n, 10)}
		}
		return Tree{K: "s", S: "f:" + x.String()}
	}
	// chartutil.Values and other named map types
	if m, ok := asMap(v); ok {
		return FromGo(m)
	}
	return Tree{K: "s", S: fmt.Sprintf("?:%T:%v", v, v)}
}

func asMap(v interface{}) (map[string]interface{}, bool) {
	b, err := json.Marshal(v)
	if err != nil {
		return nil, false
	}
	var m map[string]interface{}
	if json.Unmarshal(b, &m) != nil || m == nil {
		return nil, false
	}
	return m, true
}

// Show is a compact human-readable form (for evidence samples and violation messages).
func (t Tree) Show() string {
	switch t.K {
	case "s":
		return t.S
	case "n":
		return "null"
	case "u":
		return "UNSET"
	case "l":
		p := make([]string, len(t.L))
		for i, x := range t.L {
			p[i] = x.Show()
		}
		return "[" + strings.Join(p, ",") + "]"
	}
	ks := make([]string, 0, len(t.M))
	for k := range t.M {
		ks = append(ks, k)
	}
	sort.Strings(ks)
	p := make([]string, len(ks))
	for i, k := range ks {
		p[i] = k + ":" + t.M[k].Show()
	}
	return "{" + strings.Join(p, ",") + "}"
}

// Equal is structural equality of trees.
func (t Tree) Equal(o Tree) bool {
	if t.K != o.K {
		return false
	}
	switch t.K {
	case "s":
		return t.S == o.S
	case "l":
		if len(t.L) != len(o.L) {
			return false
		}
		for i := range t.L {
			if !t.L[i].Equal(o.L[i]) {
				return false
			}
		}
	case "m":
		if len(t.M) != len(o.M) {
			return false
		}
		for k, v := range t.M {
			w, ok := o.M[k]
			if !ok || !v.Equal(w) {
				return false
			}
		}
	}
	return true
}
