//go:build !verif

package values

import clivalues "helm.sh/helm/v4/pkg/cli/values"

// the command line route needs the constructor pkg/cmd exports under the verif build tag
func runTemplateCLI(_ *Case, _ *clivalues.Options, _ string) CLIObs {
	return CLIObs{Err: "built without the verif tag", Args: []string{}, Scopes: []Tree{}}
}
