package values

import (
	"bytes"
	"encoding/json"
	"fmt"
	"os"
	"path/filepath"
	"regexp"
	"runtime"
	"strings"
	"sync"
	"sync/atomic"

	"sigs.k8s.io/yaml"

	chart "helm.sh/helm/v4/pkg/chart/v2"
	"helm.sh/helm/v4/pkg/chart/v2/loader"
	chartutil "helm.sh/helm/v4/pkg/chart/v2/util"
	clivalues "helm.sh/helm/v4/pkg/cli/values"
	"helm.sh/helm/v4/pkg/engine"
	"helm.sh/helm/v4/pkg/getter"
)

// ChartJ is one chart level of a case: the root first, then its (only) subchart, and so on.
type ChartJ struct {
	Name string `json:"name"`
	Vals Tree   `json:"vals"`
	// Docs, when present: values.yaml is written as these YAML documents ("---" between them);
	// Vals is then what the specification expects them to amount to
	Docs []Tree `json:"docs,omitempty"`
}

// Case is a C04 case as exported by spec/ValuesMC.tla (fields the harness does not need are ignored).
type Case struct {
	ID     string   `json:"id"`
	Fam    string   `json:"fam"`
	Charts []ChartJ `json:"charts"`
	Files  []Tree   `json:"files"`
	// FileOrder, when present: the -f flags in order, as 1-based indexes into Files (a file may be
	// given more than once); otherwise every file once, in order
	FileOrder []int `json:"fileorder,omitempty"`
	// FileDocs[i], when present and non-empty: file i is written as these YAML documents
	FileDocs [][]Tree            `json:"filedocs,omitempty"`
	Flags    map[string][]string `json:"flags"`
}

type Res struct {
	OK  bool   `json:"ok"`
	Err string `json:"err"`
	V   Tree   `json:"v"`
}

// Obs is what the real code did for one case.
type Obs struct {
	ID     string `json:"id"`
	Merge  Res    `json:"merge"`  // values.Options.MergeValues
	Root   Res    `json:"root"`   // chartutil.ToRenderValues(...)["Values"]
	Coal   Res    `json:"coal"`   // chartutil.CoalesceValues on the same inputs
	Render Res    `json:"render"` // engine.Render of the probes (V unused)
	Scopes []Tree `json:"scopes"` // .Values seen by the probe template of every chart level (root first)
	Unmod  Res    `json:"unmod"`  // chart defaults and the caller's map are deep-equal before / after
	Panic  string `json:"panic"`
	CLI    CLIObs `json:"cli"` // the same inputs given to a real `helm template` command line (family cli)
	// the inputs as the harness decoded them (compared with the case by the monitor)
	Echo struct {
		Charts []ChartJ `json:"charts"`
		Files  []Tree   `json:"files"`
	} `json:"echo"`
}

// CLIObs: what `helm template rel <chart dir> -f ... --set ...` (pkg/cmd: flag parsing included) rendered
type CLIObs struct {
	Ran    bool     `json:"ran"`
	OK     bool     `json:"ok"`
	Err    string   `json:"err"`
	Args   []string `json:"args"`
	Scopes []Tree   `json:"scopes"` // .Values seen by the probe of every chart level
}

const probeTpl = `{{ toJson .Values }}`

// BuildChart builds the chart chain of a case through the real loader: values.yaml of every level is
// written as YAML text and parsed by helm.
func BuildChart(levels []ChartJ, extra map[string]string, probes bool) (*chart.Chart, error) {
	files, err := chartFiles(levels, extra, probes)
	if err != nil {
		return nil, err
	}
	return loader.LoadFiles(files)
}

// chartFiles are the files of the chart chain of a case (paths relative to the root chart's directory).
func chartFiles(levels []ChartJ, extra map[string]string, probes bool) ([]*loader.BufferedFile, error) {
	var files []*loader.BufferedFile
	prefix := ""
	for i, lv := range levels {
		if i > 0 {
			prefix += "charts/" + lv.Name + "/"
		}
		vy, err := yamlDocs(lv.Vals, lv.Docs)
		if err != nil {
			return nil, err
		}
		files = append(files,
			&loader.BufferedFile{Name: prefix + "Chart.yaml", Data: []byte(fmt.Sprintf("apiVersion: v2\nname: %s\nversion: 1.0.0\n", lv.Name))},
			&loader.BufferedFile{Name: prefix + "values.yaml", Data: vy})
		if probes {
			files = append(files, &loader.BufferedFile{Name: prefix + "templates/probe.json", Data: []byte(probeTpl)})
		}
	}
	for n, d := range extra {
		files = append(files, &loader.BufferedFile{Name: n, Data: []byte(d)})
	}
	return files, nil
}

// yamlDocs is the text of a values file: one document, or several separated by "---"
func yamlDocs(single Tree, docs []Tree) ([]byte, error) {
	if len(docs) == 0 {
		return yaml.Marshal(single.ToMap())
	}
	var out []byte
	for i, d := range docs {
		b, err := yaml.Marshal(d.ToMap())
		if err != nil {
			return nil, err
		}
		if i > 0 {
			out = append(out, []byte("---\n")...)
		}
		out = append(out, b...)
	}
	return out, nil
}

func chartLevels(ch *chart.Chart) []*chart.Chart {
	out := []*chart.Chart{ch}
	for len(ch.Dependencies()) > 0 {
		ch = ch.Dependencies()[0]
		out = append(out, ch)
	}
	return out
}

func probePath(levels []ChartJ, i int) string {
	p := levels[0].Name + "/"
	for j := 1; j <= i; j++ {
		p += "charts/" + levels[j].Name + "/"
	}
	return p + "templates/probe.json"
}

func parseProbe(s string) (Tree, error) {
	d := json.NewDecoder(strings.NewReader(s))
	d.UseNumber()
	var v interface{}
	if err := d.Decode(&v); err != nil {
		return Unset(), err
	}
	return FromGo(v), nil
}

var fileRef = regexp.MustCompile(`=@[A-Za-z0-9_]+`)

// Options builds the real values.Options of a case: value files are written to dir, "@name" in a
// --set-file expression is replaced by the path of a file whose content is name.
func Options(c *Case, dir string) (*clivalues.Options, error) {
	o := &clivalues.Options{}
	for i, f := range c.Files {
		var docs []Tree
		if i < len(c.FileDocs) {
			docs = c.FileDocs[i]
		}
		b, err := yamlDocs(f, docs)
		if err != nil {
			return nil, err
		}
		p := filepath.Join(dir, fmt.Sprintf("f%d.yaml", i+1))
		if err := os.WriteFile(p, b, 0o644); err != nil {
			return nil, err
		}
		o.ValueFiles = append(o.ValueFiles, p)
	}
	if len(c.FileOrder) > 0 {
		paths := o.ValueFiles
		o.ValueFiles = nil
		for _, i := range c.FileOrder {
			if i < 1 || i > len(paths) {
				return nil, fmt.Errorf("fileorder index %d out of range", i)
			}
			o.ValueFiles = append(o.ValueFiles, paths[i-1])
		}
	}
	o.JSONValues = c.Flags["json"]
	o.Values = c.Flags["set"]
	o.StringValues = c.Flags["str"]
	o.LiteralValues = c.Flags["lit"]
	for _, e := range c.Flags["file"] {
		var werr error
		e = fileRef.ReplaceAllStringFunc(e, func(m string) string {
			name := m[2:]
			p := filepath.Join(dir, name)
			if err := os.WriteFile(p, []byte(name), 0o644); err != nil {
				werr = err
			}
			return "=" + p
		})
		if werr != nil {
			return nil, werr
		}
		o.FileValues = append(o.FileValues, e)
	}
	return o, nil
}

// RunCase runs the real value pipeline for one case.
func RunCase(c *Case, dir string) (obs Obs) {
	obs.ID = c.ID
	obs.Merge.V, obs.Root.V, obs.Coal.V, obs.Render.V, obs.Unmod.V = Unset(), Unset(), Unset(), Unset(), Unset()
	obs.Scopes = []Tree{}
	obs.CLI.Args, obs.CLI.Scopes = []string{}, []Tree{}
	obs.Echo.Charts, obs.Echo.Files = c.Charts, c.Files
	if obs.Echo.Files == nil {
		obs.Echo.Files = []Tree{}
	}
	defer func() {
		if r := recover(); r != nil {
			obs.Panic = fmt.Sprint(r)
		}
	}()

	ch, err := BuildChart(c.Charts, nil, true)
	if err != nil {
		obs.Panic = "harness: chart does not load: " + err.Error()
		return
	}
	opts, err := Options(c, dir)
	if err != nil {
		obs.Panic = "harness: " + err.Error()
		return
	}

	if c.Fam == "cli" {
		obs.CLI = runTemplateCLI(c, opts, dir)
	}

	// 1. the user-supplied values
	merged, err := opts.MergeValues(getter.Providers{})
	if err != nil {
		obs.Merge.Err = err.Error()
		return
	}
	obs.Merge.OK, obs.Merge.V = true, FromGo(merged)

	// snapshots of everything coalescing must leave alone
	levels := chartLevels(ch)
	before := make([]Tree, len(levels))
	for i, l := range levels {
		before[i] = FromGo(l.Values)
	}
	mergedBefore := FromGo(merged)

	// 2. what templates are given
	top, err := chartutil.ToRenderValues(ch, merged, chartutil.ReleaseOptions{Name: "rel", Namespace: "ns1", Revision: 1, IsInstall: true}, nil)
	if err != nil {
		obs.Root.Err = err.Error()
	} else {
		obs.Root.OK, obs.Root.V = true, FromGo(top["Values"])
	}
	cv, err := chartutil.CoalesceValues(ch, merged)
	if err != nil {
		obs.Coal.Err = err.Error()
	} else {
		obs.Coal.OK, obs.Coal.V = true, FromGo(map[string]interface{}(cv))
	}

	// 3. what templates see: the probe of every chart level, rendered by the real engine
	if obs.Root.OK {
		out, err := engine.Render(ch, top)
		if err != nil {
			obs.Render.Err = err.Error()
		} else {
			obs.Render.OK = true
			for i := range c.Charts {
				t, perr := parseProbe(out[probePath(c.Charts, i)])
				if perr != nil {
					obs.Render.OK, obs.Render.Err = false, "probe "+probePath(c.Charts, i)+": "+perr.Error()
					t = Unset()
				}
				obs.Scopes = append(obs.Scopes, t)
			}
		}
	}

	// 4. inputs unmodified
	obs.Unmod.OK = true
	var what []string
	for i, l := range levels {
		if !before[i].Equal(FromGo(l.Values)) {
			what = append(what, fmt.Sprintf("defaults of %s: %s -> %s", l.Name(), before[i].Show(), FromGo(l.Values).Show()))
		}
	}
	if !mergedBefore.Equal(FromGo(merged)) {
		what = append(what, fmt.Sprintf("caller's values: %s -> %s", mergedBefore.Show(), FromGo(merged).Show()))
	}
	if len(what) > 0 {
		obs.Unmod.OK, obs.Unmod.Err = false, strings.Join(what, "; ")
	}
	return
}

// RunCases reads cases (NDJSON) and writes observations (NDJSON), one line per case, same order.
func RunCases(in, out string) (int, error) {
	return runLines(in, out, func(line []byte, dir string) ([]byte, error) {
		var c Case
		if err := json.Unmarshal(line, &c); err != nil {
			return nil, err
		}
		return json.Marshal(RunCase(&c, dir))
	})
}

// runLines maps every input line to an output line with a pool of workers (each with its own
// scratch directory); the order of lines is kept.
func runLines(in, out string, fn func(line []byte, dir string) ([]byte, error)) (int, error) {
	data, err := os.ReadFile(in)
	if err != nil {
		return 0, err
	}
	var lines [][]byte
	for _, line := range bytes.Split(data, []byte("\n")) {
		if len(bytes.TrimSpace(line)) > 0 {
			lines = append(lines, line)
		}
	}
	res := make([][]byte, len(lines))
	errs := make([]error, len(lines))
	nw := runtime.NumCPU()
	if nw > 12 {
		nw = 12
	}
	var wg sync.WaitGroup
	next := int64(-1)
	for w := 0; w < nw; w++ {
		wg.Add(1)
		go func() {
			defer wg.Done()
			dir, err := os.MkdirTemp("", "hvvalues")
			if err != nil {
				return
			}
			defer os.RemoveAll(dir)
			for {
				i := int(atomic.AddInt64(&next, 1))
				if i >= len(lines) {
					return
				}
				res[i], errs[i] = fn(lines[i], dir)
			}
		}()
	}
	wg.Wait()
	var buf bytes.Buffer
	for i := range lines {
		if errs[i] != nil || res[i] == nil {
			return i, fmt.Errorf("line %d: %v", i+1, errs[i])
		}
		buf.Write(res[i])
		buf.WriteByte('\n')
	}
	return len(lines), os.WriteFile(out, buf.Bytes(), 0o644)
}
