//go:build verif

package values

import (
	"bytes"
	"io"
	"log/slog"
	"os"
	"path/filepath"
	"regexp"
	"sync"

	"helm.sh/helm/v4/pkg/action"
	clivalues "helm.sh/helm/v4/pkg/cli/values"
	helmcmd "helm.sh/helm/v4/pkg/cmd"
)

// pkg/cmd keeps its settings in package globals: one command line at a time.
var cliMu sync.Mutex

var sourceRe = regexp.MustCompile(`(?m)^# Source: (\S+)\n(.*)$`)

// runTemplateCLI writes the chart of the case to disk and runs the real command
//
//	helm template rel <dir>/root --namespace ns1 -f f1.yaml ... --set-json e ... --set e ... --set-string e ...
//	                                             --set-file e ... --set-literal e ...
//
// through pkg/cmd (cobra / pflag flag parsing included): one flag occurrence per expression of the case.
func runTemplateCLI(c *Case, opts *clivalues.Options, dir string) (o CLIObs) {
	o.Ran, o.Args, o.Scopes = true, []string{}, []Tree{}
	files, err := chartFiles(c.Charts, nil, true)
	if err != nil {
		o.Err = "harness: " + err.Error()
		return
	}
	root := filepath.Join(dir, "cli", c.Charts[0].Name)
	os.RemoveAll(filepath.Join(dir, "cli"))
	for _, f := range files {
		p := filepath.Join(root, f.Name)
		if err := os.MkdirAll(filepath.Dir(p), 0o755); err != nil {
			o.Err = "harness: " + err.Error()
			return
		}
		if err := os.WriteFile(p, f.Data, 0o644); err != nil {
			o.Err = "harness: " + err.Error()
			return
		}
	}
	args := []string{"template", "rel", root, "--namespace", "ns1"}
	for _, f := range opts.ValueFiles {
		args = append(args, "-f", f)
	}
	add := func(flag string, es []string) {
		for _, e := range es {
			args = append(args, flag, e)
		}
	}
	add("--set-json", opts.JSONValues)
	add("--set", opts.Values)
	add("--set-string", opts.StringValues)
	add("--set-file", opts.FileValues)
	add("--set-literal", opts.LiteralValues)
	o.Args = args

	cliMu.Lock()
	defer cliMu.Unlock()
	var out bytes.Buffer
	cmd, err := helmcmd.NewRootCmdWithConfigForVerif(new(action.Configuration), &out, args)
	slog.SetDefault(slog.New(slog.NewTextHandler(io.Discard, nil))) // the root command installs helm's own logger
	if err != nil {
		o.Err = err.Error()
		return
	}
	cmd.SetArgs(args)
	cmd.SetOut(&out)
	cmd.SetErr(io.Discard)
	if err := cmd.Execute(); err != nil {
		o.Err = err.Error()
		return
	}
	rendered := map[string]string{}
	for _, m := range sourceRe.FindAllStringSubmatch(out.String(), -1) {
		rendered[m[1]] = m[2]
	}
	o.OK = true
	for i := range c.Charts {
		t, perr := parseProbe(rendered[probePath(c.Charts, i)])
		if perr != nil {
			o.OK, o.Err = false, "harness: probe "+probePath(c.Charts, i)+" not in the output: "+perr.Error()
			t = Unset()
		}
		o.Scopes = append(o.Scopes, t)
	}
	return
}
