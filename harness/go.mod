module verif/harness

go 1.24.0

require helm.sh/helm/v4 v4.0.0

require (
	dario.cat/mergo v1.0.1 // indirect
	github.com/AdaLogics/go-fuzz-headers v0.0.0-20230811130428-ced1acdcaa24
	github.com/Azure/go-ansiterm v0.0.0-20250102033503-faa5f7b0171c // indirect
	github.com/BurntSushi/toml v1.5.0
	github.com/DATA-DOG/go-sqlmock v1.5.2
	github.com/MakeNowJust/heredoc v1.0.0 // indirect
	github.com/Masterminds/goutils v1.1.1 // indirect
	github.com/Masterminds/semver/v3 v3.3.0
	github.com/Masterminds/sprig/v3 v3.3.0
	github.com/Masterminds/squirrel v1.5.4
	github.com/Masterminds/vcs v1.13.3
	github.com/asaskevich/govalidator v0.0.0-20230301143203-a9d515a09cc2
	github.com/beorn7/perks v1.0.1 // indirect
	github.com/blang/semver/v4 v4.0.0 // indirect
	github.com/bshuster-repo/logrus-logstash-hook v1.0.0 // indirect
	github.com/cenkalti/backoff/v4 v4.3.0 // indirect
	github.com/cespare/xxhash/v2 v2.3.0 // indirect
	github.com/chai2010/gettext-go v1.0.2 // indirect
	github.com/coreos/go-systemd/v22 v22.5.0 // indirect
	github.com/cpuguy83/go-md2man/v2 v2.0.6 // indirect
	github.com/cyphar/filepath-securejoin v0.4.1
	github.com/davecgh/go-spew v1.1.2-0.20180830191138-d8f796af33cc // indirect
	github.com/dgryski/go-rendezvous v0.0.0-20200823014737-9f7001d12a5f // indirect
	github.com/distribution/distribution/v3 v3.0.0
	github.com/distribution/reference v0.6.0 // indirect
	github.com/docker/docker-credential-helpers v0.8.2 // indirect
	github.com/docker/go-events v0.0.0-20190806004212-e31b211e4f1c // indirect
	github.com/docker/go-metrics v0.0.1 // indirect
	github.com/emicklei/go-restful/v3 v3.12.1 // indirect
	github.com/evanphx/json-patch v5.9.11+incompatible
	github.com/evanphx/json-patch/v5 v5.9.11 // indirect
	github.com/exponent-io/jsonpath v0.0.0-20210407135951-1de76d718b3f // indirect
	github.com/fatih/color v1.13.0 // indirect
	github.com/felixge/httpsnoop v1.0.4 // indirect
	github.com/fluxcd/cli-utils v0.36.0-flux.12
	github.com/foxcpp/go-mockdns v1.1.0
	github.com/fxamacker/cbor/v2 v2.7.0 // indirect
	github.com/go-errors/errors v1.5.1 // indirect
	github.com/go-gorp/gorp/v3 v3.1.0 // indirect
	github.com/go-logr/logr v1.4.2 // indirect
	github.com/go-logr/stdr v1.2.2 // indirect
	github.com/go-openapi/jsonpointer v0.21.0 // indirect
	github.com/go-openapi/jsonreference v0.21.0 // indirect
	github.com/go-openapi/swag v0.23.0 // indirect
	github.com/gobwas/glob v0.2.3
	github.com/gofrs/flock v0.12.1
	github.com/gogo/protobuf v1.3.2 // indirect
	github.com/golang/protobuf v1.5.4 // indirect
	github.com/google/btree v1.1.3 // indirect
	github.com/google/gnostic-models v0.6.9 // indirect
	github.com/google/go-cmp v0.6.0 // indirect
	github.com/google/gofuzz v1.2.0 // indirect
	github.com/google/shlex v0.0.0-20191202100458-e7afc7fbc510 // indirect
	github.com/google/uuid v1.6.0 // indirect
	github.com/gorilla/handlers v1.5.2 // indirect
	github.com/gorilla/mux v1.8.1 // indirect
	github.com/gorilla/websocket v1.5.3 // indirect
	github.com/gosuri/uitable v0.0.4
	github.com/gregjones/httpcache v0.0.0-20190611155906-901d90724c79 // indirect
	github.com/grpc-ecosystem/grpc-gateway/v2 v2.23.0 // indirect
	github.com/hashicorp/errwrap v1.1.0 // indirect
	github.com/hashicorp/go-multierror v1.1.1
	github.com/hashicorp/golang-lru/arc/v2 v2.0.5 // indirect
	github.com/hashicorp/golang-lru/v2 v2.0.5 // indirect
	github.com/huandu/xstrings v1.5.0 // indirect
	github.com/inconshreveable/mousetrap v1.1.0 // indirect
	github.com/jmoiron/sqlx v1.4.0
	github.com/josharian/intern v1.0.0 // indirect
	github.com/json-iterator/go v1.1.12 // indirect
	github.com/klauspost/compress v1.17.11 // indirect
	github.com/lann/builder v0.0.0-20180802200727-47ae307949d0 // indirect
	github.com/lann/ps v0.0.0-20150810152359-62de8c46ede0 // indirect
	github.com/lib/pq v1.10.9
	github.com/liggitt/tabwriter v0.0.0-20181228230101-89fcab3d43de // indirect
	github.com/mailru/easyjson v0.9.0 // indirect
	github.com/mattn/go-colorable v0.1.13 // indirect
	github.com/mattn/go-isatty v0.0.17 // indirect
	github.com/mattn/go-runewidth v0.0.9 // indirect
	github.com/mattn/go-shellwords v1.0.12
	github.com/miekg/dns v1.1.57 // indirect
	github.com/mitchellh/copystructure v1.2.0
	github.com/mitchellh/go-wordwrap v1.0.1 // indirect
	github.com/mitchellh/reflectwalk v1.0.2 // indirect
	github.com/moby/spdystream v0.5.0 // indirect
	github.com/moby/term v0.5.2
	github.com/modern-go/concurrent v0.0.0-20180306012644-bacd9c7ef1dd // indirect
	github.com/modern-go/reflect2 v1.0.2 // indirect
	github.com/monochromegane/go-gitignore v0.0.0-20200626010858-205db1a8cc00 // indirect
	github.com/munnerz/goautoneg v0.0.0-20191010083416-a7dc8b61c822 // indirect
	github.com/mxk/go-flowrate v0.0.0-20140419014527-cca7078d478f // indirect
	github.com/onsi/gomega v1.36.2 // indirect
	github.com/opencontainers/go-digest v1.0.0 // indirect
	github.com/opencontainers/image-spec v1.1.1
	github.com/peterbourgon/diskv v2.0.1+incompatible // indirect
	github.com/phayes/freeport v0.0.0-20220201140144-74d24b5ae9f5
	github.com/pkg/errors v0.9.1
	github.com/pmezard/go-difflib v1.0.1-0.20181226105442-5d4384ee4fb2 // indirect
	github.com/prometheus/client_golang v1.20.5 // indirect
	github.com/prometheus/client_model v0.6.1 // indirect
	github.com/prometheus/common v0.62.0 // indirect
	github.com/prometheus/procfs v0.15.1 // indirect
	github.com/redis/go-redis/extra/rediscmd/v9 v9.0.5 // indirect
	github.com/redis/go-redis/extra/redisotel/v9 v9.0.5 // indirect
	github.com/redis/go-redis/v9 v9.7.3 // indirect
	github.com/rubenv/sql-migrate v1.8.0
	github.com/russross/blackfriday/v2 v2.1.0 // indirect
	github.com/santhosh-tekuri/jsonschema/v6 v6.0.1
	github.com/shopspring/decimal v1.4.0 // indirect
	github.com/sirupsen/logrus v1.9.3 // indirect
	github.com/spf13/cast v1.7.0 // indirect
	github.com/spf13/cobra v1.9.1
	github.com/spf13/pflag v1.0.6
	github.com/stretchr/testify v1.10.0
	github.com/x448/float16 v0.8.4 // indirect
	github.com/xlab/treeprint v1.2.0 // indirect
	go.opentelemetry.io/auto/sdk v1.1.0 // indirect
	go.opentelemetry.io/contrib/bridges/prometheus v0.57.0 // indirect
	go.opentelemetry.io/contrib/exporters/autoexport v0.57.0 // indirect
	go.opentelemetry.io/contrib/instrumentation/net/http/otelhttp v0.57.0 // indirect
	go.opentelemetry.io/otel v1.34.0 // indirect
	go.opentelemetry.io/otel/exporters/otlp/otlplog/otlploggrpc v0.8.0 // indirect
	go.opentelemetry.io/otel/exporters/otlp/otlplog/otlploghttp v0.8.0 // indirect
	go.opentelemetry.io/otel/exporters/otlp/otlpmetric/otlpmetricgrpc v1.32.0 // indirect
	go.opentelemetry.io/otel/exporters/otlp/otlpmetric/otlpmetrichttp v1.32.0 // indirect
	go.opentelemetry.io/otel/exporters/otlp/otlptrace v1.32.0 // indirect
	go.opentelemetry.io/otel/exporters/otlp/otlptrace/otlptracegrpc v1.32.0 // indirect
	go.opentelemetry.io/otel/exporters/otlp/otlptrace/otlptracehttp v1.32.0 // indirect
	go.opentelemetry.io/otel/exporters/prometheus v0.54.0 // indirect
	go.opentelemetry.io/otel/exporters/stdout/stdoutlog v0.8.0 // indirect
	go.opentelemetry.io/otel/exporters/stdout/stdoutmetric v1.32.0 // indirect
	go.opentelemetry.io/otel/exporters/stdout/stdouttrace v1.32.0 // indirect
	go.opentelemetry.io/otel/log v0.8.0 // indirect
	go.opentelemetry.io/otel/metric v1.34.0 // indirect
	go.opentelemetry.io/otel/sdk v1.32.0 // indirect
	go.opentelemetry.io/otel/sdk/log v0.8.0 // indirect
	go.opentelemetry.io/otel/sdk/metric v1.32.0 // indirect
	go.opentelemetry.io/otel/trace v1.34.0 // indirect
	go.opentelemetry.io/proto/otlp v1.3.1 // indirect
	golang.org/x/crypto v0.37.0
	golang.org/x/mod v0.22.0 // indirect
	golang.org/x/net v0.38.0 // indirect
	golang.org/x/oauth2 v0.28.0 // indirect
	golang.org/x/sync v0.13.0 // indirect
	golang.org/x/sys v0.32.0 // indirect
	golang.org/x/term v0.31.0
	golang.org/x/text v0.24.0
	golang.org/x/time v0.9.0 // indirect
	golang.org/x/tools v0.29.0 // indirect
	google.golang.org/genproto/googleapis/api v0.0.0-20241104194629-dd2ea8efbc28 // indirect
	google.golang.org/genproto/googleapis/rpc v0.0.0-20241104194629-dd2ea8efbc28 // indirect
	google.golang.org/grpc v1.68.0 // indirect
	google.golang.org/protobuf v1.36.4 // indirect
	gopkg.in/evanphx/json-patch.v4 v4.12.0 // indirect
	gopkg.in/inf.v0 v0.9.1 // indirect
	gopkg.in/yaml.v2 v2.4.0 // indirect
	gopkg.in/yaml.v3 v3.0.1
	k8s.io/api v0.32.3
	k8s.io/apiextensions-apiserver v0.32.3
	k8s.io/apimachinery v0.32.3
	k8s.io/apiserver v0.32.3
	k8s.io/cli-runtime v0.32.3
	k8s.io/client-go v0.32.3
	k8s.io/component-base v0.32.3 // indirect
	k8s.io/klog/v2 v2.130.1
	k8s.io/kube-openapi v0.0.0-20241212222426-2c72e554b1e7 // indirect
	k8s.io/kubectl v0.32.3
	k8s.io/utils v0.0.0-20241210054802-24370beab758 // indirect
	oras.land/oras-go/v2 v2.5.0
	sigs.k8s.io/controller-runtime v0.20.4
	sigs.k8s.io/json v0.0.0-20241014173422-cfa47c3a1cc8 // indirect
	sigs.k8s.io/kustomize/api v0.18.0 // indirect
	sigs.k8s.io/kustomize/kyaml v0.19.0 // indirect
	sigs.k8s.io/structured-merge-diff/v4 v4.5.0 // indirect
	sigs.k8s.io/yaml v1.4.0
)

replace helm.sh/helm/v4 => /repo
