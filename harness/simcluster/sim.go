// Package simcluster is a stateful, in-process simulation of the part of the
// Kubernetes REST API that helm's kube.Client and storage drivers use. It is an
// http.RoundTripper, so the unmodified client-go / cli-runtime stack talks to it
// without sockets.
//
// It is the "cluster" variable of spec/Helm.tla made concrete: a map from
// (group, version, resource, namespace, name) to an unstructured object with
// plain REST semantics (GET / LIST with label selectors / POST 409 / PUT / PATCH
// (strategic and JSON merge) / DELETE 404).
package simcluster

import (
	"bytes"
	"encoding/json"
	"fmt"
	"io"
	"net/http"
	"sort"
	"strconv"
	"strings"
	"sync"

	jsonpatch "github.com/evanphx/json-patch"
	"k8s.io/apimachinery/pkg/labels"
	"k8s.io/apimachinery/pkg/runtime/schema"
	"k8s.io/apimachinery/pkg/util/strategicpatch"
	"k8s.io/client-go/kubernetes/scheme"
)

// Key identifies one stored object.
type Key struct {
	Group, Version, Resource, Namespace, Name string
}

func (k Key) String() string {
	return fmt.Sprintf("%s/%s/%s/%s/%s", k.Group, k.Version, k.Resource, k.Namespace, k.Name)
}

// store returns the storage key: like a real API server, an object is ONE object whatever
// version of its group it is addressed by.
func (k Key) store() Key { k.Version = ""; return k }

// ResourceInfo describes one REST resource the simulated server knows.
type ResourceInfo struct {
	Group, Version, Resource, Kind string
	Namespaced                     bool
}

// Known is the static resource table (also used to build the RESTMapper).
var Known = []ResourceInfo{
	{"", "v1", "configmaps", "ConfigMap", true},
	{"", "v1", "secrets", "Secret", true},
	{"", "v1", "services", "Service", true},
	{"", "v1", "pods", "Pod", true},
	{"", "v1", "serviceaccounts", "ServiceAccount", true},
	{"", "v1", "namespaces", "Namespace", false},
	{"batch", "v1", "jobs", "Job", true},
	{"apps", "v1", "deployments", "Deployment", true},
	{"apps", "v1", "daemonsets", "DaemonSet", true},
	{"apps", "v1", "statefulsets", "StatefulSet", true},
	{"apps", "v1", "replicasets", "ReplicaSet", true},
	{"", "v1", "replicationcontrollers", "ReplicationController", true},
	{"", "v1", "persistentvolumeclaims", "PersistentVolumeClaim", true},
	{"verif.example", "v1", "widgets", "Widget", true},
	{"verif.example", "v2", "widgets", "Widget", true},
	{"verif.example", "v1", "gadgets", "Gadget", false}, // a cluster-scoped custom kind
	{"apiextensions.k8s.io", "v1", "customresourcedefinitions", "CustomResourceDefinition", false},
}

func lookupResource(group, version, resource string) (ResourceInfo, bool) {
	for _, r := range Known {
		if r.Group == group && r.Version == version && r.Resource == resource {
			return r, true
		}
	}
	return ResourceInfo{}, false
}

// Request is one entry of the raw HTTP request log.
type Request struct {
	Seq     int    `json:"seq"`
	Proc    int    `json:"proc"`
	Method  string `json:"method"`
	Path    string `json:"path"`
	Key     Key    `json:"-"`
	KeyStr  string `json:"key"`
	Status  int    `json:"status"`
	Storage bool   `json:"storage"` // request addressed a helm release record (Secret/ConfigMap sh.helm.release.v1.*)
	Body    string `json:"body,omitempty"`
}

// Hook lets the harness intercept a request before it is applied. It returns a
// non-zero HTTP status to reject the request (the store is then untouched), and a
// done func that is called after the request has been applied and logged (may be nil).
type Hook func(proc int, method string, key Key, storage bool) (reject int, done func(status int))

// Sim is the simulated API server.
type Sim struct {
	mu      sync.Mutex
	objs    map[Key]map[string]interface{}
	rv      int
	seq     int
	reqs    []Request
	Hook    Hook
	LogBody bool
	// Watch enables GET ...?watch=true (off by default: the core harness scripts its waiter and nothing
	// watches). Changes are kept in a short log so that a watch can start from the resourceVersion of a
	// preceding LIST without losing what happened in between.
	Watch    bool
	wlog     []wevent
	watchers map[int]*watcher
	wseq     int
}

type wevent struct {
	rv  int
	typ string
	k   Key
	obj map[string]interface{}
}

type watcher struct {
	group, resource, ns, name string
	version                   string
	ch                        chan []byte
}

func (w *watcher) matches(k Key) bool {
	return k.Group == w.group && k.Resource == w.resource && (w.ns == "" || k.Namespace == w.ns) && (w.name == "" || k.Name == w.name)
}

func (w *watcher) encode(e wevent) []byte {
	b, _ := json.Marshal(map[string]interface{}{"type": e.typ, "object": view(e.obj, Key{Group: w.group, Version: w.version})})
	return append(b, '\n')
}

// record (under s.mu) logs a change and hands it to the matching watchers.
func (s *Sim) record(typ string, k Key, o map[string]interface{}) {
	if !s.Watch {
		return
	}
	e := wevent{rv: s.rv, typ: typ, k: k.store(), obj: deepCopy(o)}
	s.wlog = append(s.wlog, e)
	if len(s.wlog) > 512 {
		s.wlog = s.wlog[len(s.wlog)-512:]
	}
	for _, w := range s.watchers {
		if w.matches(e.k) {
			select {
			case w.ch <- w.encode(e):
			default: // a watcher that does not read is dropped from (its stream ends at the next write)
			}
		}
	}
}

// Remove deletes an object directly (out-of-band).
func (s *Sim) Remove(k Key) {
	s.mu.Lock()
	defer s.mu.Unlock()
	if o, ok := s.objs[k.store()]; ok {
		delete(s.objs, k.store())
		s.rv++
		s.record("DELETED", k, o)
	}
}

// serveWatch answers GET ...?watch=true with a stream of watch events.
func (s *Sim) serveWatch(req *http.Request) *http.Response {
	p := parsePath(req.URL.Path)
	name := ""
	if fs := req.URL.Query().Get("fieldSelector"); strings.HasPrefix(fs, "metadata.name=") {
		name = strings.TrimPrefix(fs, "metadata.name=")
	}
	from, _ := strconv.Atoi(req.URL.Query().Get("resourceVersion"))
	w := &watcher{group: p.info.Group, version: p.info.Version, resource: p.info.Resource, ns: p.ns, name: name, ch: make(chan []byte, 1024)}
	s.mu.Lock()
	if s.watchers == nil {
		s.watchers = map[int]*watcher{}
	}
	s.wseq++
	id := s.wseq
	if from == 0 {
		for k, o := range s.objs {
			if w.matches(k) {
				w.ch <- w.encode(wevent{typ: "ADDED", k: k, obj: o})
			}
		}
	} else {
		for _, e := range s.wlog {
			if e.rv > from && w.matches(e.k) {
				w.ch <- w.encode(e)
			}
		}
	}
	s.watchers[id] = w
	s.mu.Unlock()
	pr, pw := io.Pipe()
	go func() {
		defer func() {
			s.mu.Lock()
			delete(s.watchers, id)
			s.mu.Unlock()
			pw.Close()
		}()
		for {
			select {
			case b := <-w.ch:
				if _, err := pw.Write(b); err != nil {
					return
				}
			case <-req.Context().Done():
				return
			}
		}
	}()
	return &http.Response{
		StatusCode: 200, Status: "200 OK", Proto: "HTTP/1.1", ProtoMajor: 1, ProtoMinor: 1,
		Header: http.Header{"Content-Type": []string{"application/json"}}, Body: pr, ContentLength: -1, Request: req,
	}
}

func New() *Sim {
	return &Sim{objs: map[Key]map[string]interface{}{}}
}

// ---- direct (out-of-band) access -------------------------------------------------

func deepCopy(m map[string]interface{}) map[string]interface{} {
	b, _ := json.Marshal(m)
	var out map[string]interface{}
	_ = json.Unmarshal(b, &out)
	return out
}

// Put writes an object directly (out-of-band; not logged as a request).
func (s *Sim) Put(k Key, obj map[string]interface{}) {
	s.mu.Lock()
	defer s.mu.Unlock()
	o := deepCopy(obj)
	s.stamp(k, o, true)
	s.objs[k.store()] = o
}

// GetObj returns a copy of the stored object or nil.
func (s *Sim) GetObj(k Key) map[string]interface{} {
	s.mu.Lock()
	defer s.mu.Unlock()
	if o, ok := s.objs[k.store()]; ok {
		return deepCopy(o)
	}
	return nil
}

// Mutate applies fn to the stored object (out-of-band edit).
func (s *Sim) Mutate(k Key, fn func(o map[string]interface{})) bool {
	s.mu.Lock()
	defer s.mu.Unlock()
	o, ok := s.objs[k.store()]
	if !ok {
		return false
	}
	fn(o)
	s.rv++
	setNested(o, strconv.Itoa(s.rv), "metadata", "resourceVersion")
	return true
}

// Keys returns all keys, sorted.
func (s *Sim) Keys() []Key {
	s.mu.Lock()
	defer s.mu.Unlock()
	var ks []Key
	for k := range s.objs {
		ks = append(ks, k)
	}
	sort.Slice(ks, func(i, j int) bool { return ks[i].String() < ks[j].String() })
	return ks
}

// Snapshot returns a deep copy of the whole store.
func (s *Sim) Snapshot() map[Key]map[string]interface{} {
	s.mu.Lock()
	defer s.mu.Unlock()
	out := make(map[Key]map[string]interface{}, len(s.objs))
	for k, v := range s.objs {
		out[k] = deepCopy(v)
	}
	return out
}

// Requests returns a copy of the request log from index from.
// CountBy returns how many HTTP requests process proc has sent so far (served or not).
func (s *Sim) CountBy(proc int) (all, writes int) {
	s.mu.Lock()
	defer s.mu.Unlock()
	for _, r := range s.reqs {
		if r.Proc == proc {
			all++
			if r.Method != http.MethodGet {
				writes++
			}
		}
	}
	return
}

func (s *Sim) Requests(from int) []Request {
	s.mu.Lock()
	defer s.mu.Unlock()
	if from > len(s.reqs) {
		from = len(s.reqs)
	}
	out := make([]Request, len(s.reqs)-from)
	copy(out, s.reqs[from:])
	return out
}

func (s *Sim) NumRequests() int {
	s.mu.Lock()
	defer s.mu.Unlock()
	return len(s.reqs)
}

// ---- transport -------------------------------------------------------------------

type transport struct {
	s    *Sim
	proc int
}

// Transport returns a RoundTripper bound to a process id (used to attribute
// requests to one of several concurrently running operations).
func (s *Sim) Transport(proc int) http.RoundTripper { return &transport{s: s, proc: proc} }

func (t *transport) RoundTrip(req *http.Request) (*http.Response, error) {
	var body []byte
	if req.Body != nil {
		body, _ = io.ReadAll(req.Body)
		req.Body.Close()
	}
	if t.s.Watch && req.Method == http.MethodGet && (req.URL.Query().Get("watch") == "true" || req.URL.Query().Get("watch") == "1") {
		return t.s.serveWatch(req), nil
	}
	status, out := t.s.handle(t.proc, req, body)
	b, _ := json.Marshal(out)
	return &http.Response{
		StatusCode: status,
		Status:     strconv.Itoa(status) + " " + http.StatusText(status),
		Proto:      "HTTP/1.1", ProtoMajor: 1, ProtoMinor: 1,
		Header:        http.Header{"Content-Type": []string{"application/json"}},
		Body:          io.NopCloser(bytes.NewReader(b)),
		ContentLength: int64(len(b)),
		Request:       req,
	}, nil
}

func statusObj(code int, reason, msg string) map[string]interface{} {
	return map[string]interface{}{
		"kind": "Status", "apiVersion": "v1", "metadata": map[string]interface{}{},
		"status": "Failure", "message": msg, "reason": reason, "code": code,
	}
}

// IsReleaseRecordName reports whether an object name is a helm release record key.
func IsReleaseRecordName(name string) bool { return strings.HasPrefix(name, "sh.helm.release.v1.") }

type parsed struct {
	info ResourceInfo
	ns   string
	name string
	ok   bool
}

func parsePath(p string) parsed {
	parts := strings.Split(strings.Trim(p, "/"), "/")
	var group, version string
	var rest []string
	switch {
	case len(parts) >= 2 && parts[0] == "api":
		group, version, rest = "", parts[1], parts[2:]
	case len(parts) >= 3 && parts[0] == "apis":
		group, version, rest = parts[1], parts[2], parts[3:]
	default:
		return parsed{}
	}
	ns := ""
	if len(rest) >= 3 && rest[0] == "namespaces" {
		// /namespaces/{ns}/{resource}[/{name}]
		ns = rest[1]
		rest = rest[2:]
	}
	if len(rest) == 0 {
		return parsed{}
	}
	info, ok := lookupResource(group, version, rest[0])
	if !ok {
		return parsed{}
	}
	name := ""
	if len(rest) >= 2 {
		name = rest[1]
	}
	return parsed{info: info, ns: ns, name: name, ok: true}
}

func (s *Sim) handle(proc int, req *http.Request, body []byte) (int, interface{}) {
	path := req.URL.Path
	switch path {
	case "/version":
		s.logReq(proc, req, Key{Resource: "version"}, false, 200, body) // (a request like any other for the count)
		return 200, map[string]interface{}{"major": "1", "minor": "32", "gitVersion": "v1.32.0"}
	}
	p := parsePath(path)
	if !p.ok {
		// (discovery and other paths the simulation does not serve still count as requests sent)
		s.logReq(proc, req, Key{Resource: "?"}, false, 404, body)
		return 404, statusObj(404, "NotFound", "the server could not find the requested resource "+path)
	}
	key := Key{p.info.Group, p.info.Version, p.info.Resource, p.ns, p.name}
	if req.Method == http.MethodPost && key.Name == "" {
		key.Name = bodyName(body)
	}
	storage := (p.info.Resource == "secrets" || p.info.Resource == "configmaps") &&
		(IsReleaseRecordName(p.name) || (p.name == "" && strings.Contains(req.URL.Query().Get("labelSelector"), "owner=helm")) || isRecordBody(body))

	var done func(int)
	if s.Hook != nil {
		reject, d := s.Hook(proc, req.Method, key, storage)
		done = d
		if reject != 0 {
			s.logReq(proc, req, key, storage, reject, body)
			if done != nil {
				done(reject)
			}
			return reject, statusObj(reject, reasonFor(reject), fmt.Sprintf("injected fault: %s %s rejected", req.Method, path))
		}
	}
	status, out := s.apply(req, p, key, body)
	s.logReq(proc, req, key, storage, status, body)
	if done != nil {
		done(status)
	}
	return status, out
}

func bodyName(body []byte) string {
	if len(body) == 0 {
		return ""
	}
	var o struct {
		Metadata struct {
			Name string `json:"name"`
		} `json:"metadata"`
	}
	if json.Unmarshal(body, &o) != nil {
		return ""
	}
	return o.Metadata.Name
}

func isRecordBody(body []byte) bool { return IsReleaseRecordName(bodyName(body)) }

func reasonFor(code int) string {
	switch code {
	case 403:
		return "Forbidden"
	case 404:
		return "NotFound"
	case 409:
		return "AlreadyExists"
	case 500:
		return "InternalError"
	}
	return "Unknown"
}

func (s *Sim) logReq(proc int, req *http.Request, key Key, storage bool, status int, body []byte) {
	s.mu.Lock()
	defer s.mu.Unlock()
	s.seq++
	r := Request{Seq: s.seq, Proc: proc, Method: req.Method, Path: req.URL.RequestURI(), Key: key, KeyStr: key.String(), Status: status, Storage: storage}
	if s.LogBody {
		r.Body = string(body)
	}
	s.reqs = append(s.reqs, r)
}

// view returns a copy of a stored object as seen through the requested version of its group.
func view(o map[string]interface{}, k Key) map[string]interface{} {
	c := deepCopy(o)
	if k.Version != "" {
		if k.Group != "" {
			c["apiVersion"] = k.Group + "/" + k.Version
		} else {
			c["apiVersion"] = k.Version
		}
	}
	return c
}

func (s *Sim) stamp(k Key, o map[string]interface{}, create bool) {
	s.rv++
	info, _ := lookupResource(k.Group, k.Version, k.Resource)
	gv := info.Version
	if info.Group != "" {
		gv = info.Group + "/" + info.Version
	}
	o["apiVersion"] = gv
	o["kind"] = info.Kind
	md, _ := o["metadata"].(map[string]interface{})
	if md == nil {
		md = map[string]interface{}{}
		o["metadata"] = md
	}
	md["name"] = k.Name
	if info.Namespaced {
		md["namespace"] = k.Namespace
	}
	md["resourceVersion"] = strconv.Itoa(s.rv)
	if create {
		md["uid"] = fmt.Sprintf("uid-%d", s.rv)
	}
	if s.Watch {
		typ := "MODIFIED"
		if create {
			typ = "ADDED"
		}
		s.record(typ, k, o)
	}
}

func setNested(o map[string]interface{}, v interface{}, path ...string) {
	cur := o
	for _, p := range path[:len(path)-1] {
		nx, _ := cur[p].(map[string]interface{})
		if nx == nil {
			nx = map[string]interface{}{}
			cur[p] = nx
		}
		cur = nx
	}
	cur[path[len(path)-1]] = v
}

func objLabels(o map[string]interface{}) labels.Set {
	out := labels.Set{}
	md, _ := o["metadata"].(map[string]interface{})
	ls, _ := md["labels"].(map[string]interface{})
	for k, v := range ls {
		out[k] = fmt.Sprint(v)
	}
	return out
}

func (s *Sim) apply(req *http.Request, p parsed, key Key, body []byte) (int, interface{}) {
	s.mu.Lock()
	defer s.mu.Unlock()
	info := p.info
	notFound := func() (int, interface{}) {
		return 404, statusObj(404, "NotFound", fmt.Sprintf("%s %q not found", info.Resource, key.Name))
	}
	switch req.Method {
	case http.MethodGet:
		if key.Name == "" { // LIST
			if req.URL.Query().Get("watch") == "true" || req.URL.Query().Get("watch") == "1" {
				return 404, statusObj(404, "NotFound", "watch is not simulated")
			}
			sel := labels.Everything()
			if ls := req.URL.Query().Get("labelSelector"); ls != "" {
				var err error
				sel, err = labels.Parse(ls)
				if err != nil {
					return 400, statusObj(400, "BadRequest", err.Error())
				}
			}
			var ks []Key
			for k := range s.objs {
				if k.Group == key.Group && k.Resource == key.Resource && (key.Namespace == "" || k.Namespace == key.Namespace) {
					if sel.Matches(objLabels(s.objs[k])) {
						ks = append(ks, k)
					}
				}
			}
			sort.Slice(ks, func(i, j int) bool { return ks[i].String() < ks[j].String() })
			items := make([]interface{}, 0, len(ks))
			for _, k := range ks {
				items = append(items, view(s.objs[k], key))
			}
			gv := info.Version
			if info.Group != "" {
				gv = info.Group + "/" + info.Version
			}
			return 200, map[string]interface{}{"kind": info.Kind + "List", "apiVersion": gv,
				"metadata": map[string]interface{}{"resourceVersion": strconv.Itoa(s.rv)}, "items": items}
		}
		o, ok := s.objs[key.store()]
		if !ok {
			return notFound()
		}
		return 200, view(o, key)
	case http.MethodPost:
		var o map[string]interface{}
		if err := json.Unmarshal(body, &o); err != nil {
			return 400, statusObj(400, "BadRequest", err.Error())
		}
		md, _ := o["metadata"].(map[string]interface{})
		name, _ := md["name"].(string)
		if name == "" {
			return 422, statusObj(422, "Invalid", "metadata.name required")
		}
		key.Name = name
		key.Namespace = p.ns
		if _, exists := s.objs[key.store()]; exists {
			return 409, statusObj(409, "AlreadyExists", fmt.Sprintf("%s %q already exists", info.Resource, name))
		}
		s.stamp(key, o, true)
		s.objs[key.store()] = o
		return 201, deepCopy(o)
	case http.MethodPut:
		old, ok := s.objs[key.store()]
		if !ok {
			return notFound()
		}
		var o map[string]interface{}
		if err := json.Unmarshal(body, &o); err != nil {
			return 400, statusObj(400, "BadRequest", err.Error())
		}
		s.stamp(key, o, false)
		if omd, _ := old["metadata"].(map[string]interface{}); omd != nil {
			setNested(o, omd["uid"], "metadata", "uid")
		}
		s.objs[key.store()] = o
		return 200, deepCopy(o)
	case http.MethodPatch:
		old, ok := s.objs[key.store()]
		if !ok {
			return notFound()
		}
		oldJSON, _ := json.Marshal(old)
		ct := req.Header.Get("Content-Type")
		var merged []byte
		var err error
		switch {
		case strings.HasPrefix(ct, "application/strategic-merge-patch+json"):
			gvk := schema.GroupVersionKind{Group: info.Group, Version: info.Version, Kind: info.Kind}
			typed, terr := scheme.Scheme.New(gvk)
			if terr != nil {
				return 415, statusObj(415, "UnsupportedMediaType", "strategic merge patch not supported for "+gvk.String())
			}
			merged, err = strategicpatch.StrategicMergePatch(oldJSON, body, typed)
		case strings.HasPrefix(ct, "application/merge-patch+json"):
			merged, err = jsonpatch.MergePatch(oldJSON, body)
		default:
			return 415, statusObj(415, "UnsupportedMediaType", "unsupported patch type "+ct)
		}
		if err != nil {
			return 422, statusObj(422, "Invalid", err.Error())
		}
		var o map[string]interface{}
		if err := json.Unmarshal(merged, &o); err != nil {
			return 500, statusObj(500, "InternalError", err.Error())
		}
		s.stamp(key, o, false)
		s.objs[key.store()] = o
		return 200, deepCopy(o)
	case http.MethodDelete:
		o, ok := s.objs[key.store()]
		if !ok {
			return notFound()
		}
		delete(s.objs, key.store())
		s.rv++
		s.record("DELETED", key, o)
		return 200, map[string]interface{}{"kind": "Status", "apiVersion": "v1", "metadata": map[string]interface{}{}, "status": "Success"}
	}
	return 405, statusObj(405, "MethodNotAllowed", req.Method)
}
