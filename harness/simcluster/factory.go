package simcluster

import (
	"net/http"

	"k8s.io/apimachinery/pkg/api/meta"
	"k8s.io/apimachinery/pkg/runtime/schema"
	"k8s.io/cli-runtime/pkg/resource"
	"k8s.io/client-go/discovery"
	"k8s.io/client-go/discovery/cached/memory"
	"k8s.io/client-go/dynamic"
	"k8s.io/client-go/kubernetes"
	"k8s.io/client-go/rest"
	"k8s.io/client-go/restmapper"
	"k8s.io/client-go/tools/clientcmd"
	clientcmdapi "k8s.io/client-go/tools/clientcmd/api"
	"k8s.io/kubectl/pkg/validation"
)

// Factory implements helm's kube.Factory on top of a Sim transport. Everything
// that talks to the cluster is the real client-go / cli-runtime code; only the
// wire is replaced.
type Factory struct {
	RT        http.RoundTripper
	Namespace string
}

func (f *Factory) ToRESTConfig() (*rest.Config, error) {
	return &rest.Config{
		Host:      "http://sim.cluster",
		Transport: f.RT,
		ContentConfig: rest.ContentConfig{
			ContentType:        "application/json",
			AcceptContentTypes: "application/json",
		},
		QPS:   -1,
		Burst: -1,
	}, nil
}

func (f *Factory) ToRawKubeConfigLoader() clientcmd.ClientConfig {
	cfg := clientcmdapi.NewConfig()
	cfg.Clusters["sim"] = &clientcmdapi.Cluster{Server: "http://sim.cluster"}
	cfg.Contexts["sim"] = &clientcmdapi.Context{Cluster: "sim", Namespace: f.Namespace}
	cfg.CurrentContext = "sim"
	return clientcmd.NewDefaultClientConfig(*cfg, &clientcmd.ConfigOverrides{})
}

func (f *Factory) DynamicClient() (dynamic.Interface, error) {
	c, _ := f.ToRESTConfig()
	return dynamic.NewForConfig(c)
}

func (f *Factory) KubernetesClientSet() (*kubernetes.Clientset, error) {
	c, _ := f.ToRESTConfig()
	return kubernetes.NewForConfig(c)
}

// StaticMapper returns a RESTMapper for the Known table.
func StaticMapper() meta.RESTMapper {
	m := meta.NewDefaultRESTMapper(nil)
	for _, r := range Known {
		scope := meta.RESTScopeNamespace
		if !r.Namespaced {
			scope = meta.RESTScopeRoot
		}
		m.AddSpecific(
			schema.GroupVersionKind{Group: r.Group, Version: r.Version, Kind: r.Kind},
			schema.GroupVersionResource{Group: r.Group, Version: r.Version, Resource: r.Resource},
			schema.GroupVersionResource{Group: r.Group, Version: r.Version, Resource: r.Resource},
			scope)
	}
	return m
}

func (f *Factory) NewBuilder() *resource.Builder {
	clientFn := func(gv schema.GroupVersion) (resource.RESTClient, error) {
		c, _ := f.ToRESTConfig()
		c.ContentConfig = resource.UnstructuredPlusDefaultContentConfig()
		c.ContentConfig.ContentType = "application/json"
		c.GroupVersion = &gv
		if gv.Group == "" {
			c.APIPath = "/api"
		} else {
			c.APIPath = "/apis"
		}
		return rest.RESTClientFor(c)
	}
	mapperFn := func() (meta.RESTMapper, error) { return StaticMapper(), nil }
	catFn := func() (restmapper.CategoryExpander, error) {
		return restmapper.SimpleCategoryExpander{Expansions: map[string][]schema.GroupResource{}}, nil
	}
	return resource.NewFakeBuilder(clientFn, mapperFn, catFn)
}

func (f *Factory) Validator(_ string) (validation.Schema, error) {
	return validation.NullSchema{}, nil
}

// Getter implements action.RESTClientGetter (needed only by CRD installation
// and server-side rendering paths).
type Getter struct{ F *Factory }

func (g *Getter) ToRESTConfig() (*rest.Config, error) { return g.F.ToRESTConfig() }
func (g *Getter) ToDiscoveryClient() (discovery.CachedDiscoveryInterface, error) {
	c, _ := g.F.ToRESTConfig()
	dc, err := discovery.NewDiscoveryClientForConfig(c)
	if err != nil {
		return nil, err
	}
	return memory.NewMemCacheClient(dc), nil
}
func (g *Getter) ToRESTMapper() (meta.RESTMapper, error) { return StaticMapper(), nil }

// ToRawKubeConfigLoader completes genericclioptions.RESTClientGetter (needed by action.Configuration.Init).
func (g *Getter) ToRawKubeConfigLoader() clientcmd.ClientConfig { return g.F.ToRawKubeConfigLoader() }
