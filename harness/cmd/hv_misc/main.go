// hv_misc is the Go side of the checks C17 (provenance), C18 (index queries), C19 (credentials)
// and C20 (malformed input): it concretises the cases TLC enumerated, replays them on the real
// helm code and writes one NDJSON observation per case.  Sub-commands are registered by the
// family packages under verif/harness/fam.
package main

import (
	"fmt"
	"os"
	"sort"

	"verif/harness/fam/index"
)

var commands = map[string]func(args []string) error{}

func main() {
	index.Register(commands)
	registerMore(commands)
	if len(os.Args) < 2 || commands[os.Args[1]] == nil {
		names := make([]string, 0, len(commands))
		for n := range commands {
			names = append(names, n)
		}
		sort.Strings(names)
		fmt.Fprintf(os.Stderr, "usage: hv_misc <command> ...; commands: %v\n", names)
		os.Exit(2)
	}
	if err := commands[os.Args[1]](os.Args[2:]); err != nil {
		fmt.Fprintf(os.Stderr, "hv_misc %s: %v\n", os.Args[1], err)
		os.Exit(2)
	}
}
