package main

// registerMore registers the families added after C18 (kept in a separate file so that each
// family is one line).
func registerMore(c map[string]func(args []string) error) {
}
