package main

import (
	"verif/harness/fam/creds"
	"verif/harness/fam/prov"
	"verif/harness/fam/shapes"
)

// registerMore registers the families added after C18 (kept in a separate file so that each
// family is one line).
func registerMore(c map[string]func(args []string) error) {
	creds.Register(c)
	prov.Register(c)
	shapes.Register(c)
}
