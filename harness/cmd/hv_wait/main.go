// hv_wait replays the cases of spec/Wait.tla on helm's real waiters (harness/fam/wait).
package main

import (
	"flag"
	"fmt"
	"os"
	"time"

	"verif/harness/fam/wait"
)

func main() {
	par := flag.Int("par", 16, "cases run side by side")
	step := flag.Int("step", 250, "milliseconds between two ticks")
	flag.Parse()
	if flag.NArg() != 2 {
		fmt.Fprintln(os.Stderr, "usage: hv_wait [-par N] [-step ms] <cases.ndjson> <obs.ndjson>")
		os.Exit(2)
	}
	n, err := wait.Run(flag.Arg(0), flag.Arg(1), *par, time.Duration(*step)*time.Millisecond)
	if err != nil {
		fmt.Fprintln(os.Stderr, "hv_wait:", err)
		os.Exit(2)
	}
	fmt.Printf("hv_wait: %d cases\n", n)
}
