// hv is the Go side of the model-based verification of helm: it replays scenarios and
// enumerated cases against the real code and writes traces / observations for TLC.
// Sub-commands register themselves (one file per family) in the commands table.
package main

import (
	"fmt"
	"os"
	"sort"
)

var commands = map[string]func(args []string){}

func die(f string, a ...any) {
	fmt.Fprintf(os.Stderr, f+"\n", a...)
	os.Exit(2)
}

func main() {
	if len(os.Args) < 2 {
		names := make([]string, 0, len(commands))
		for n := range commands {
			names = append(names, n)
		}
		sort.Strings(names)
		die("usage: hv <command> ...; commands: %v", names)
	}
	fn, ok := commands[os.Args[1]]
	if !ok {
		die("unknown command %s", os.Args[1])
	}
	fn(os.Args[2:])
}
