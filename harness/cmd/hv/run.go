package main

import (
	"bufio"
	"encoding/json"
	"flag"
	"fmt"
	"os"

	"verif/harness/scen"
)

func init() { commands["run"] = cmdRun }

// hv run: replay scenarios (NDJSON) on the real pkg/action code, write the trace (NDJSON).
func cmdRun(args []string) {
	fs := flag.NewFlagSet("run", flag.ExitOnError)
	charts := fs.String("charts", "spec/charts.json", "chart library")
	in := fs.String("in", "", "scenario NDJSON file")
	out := fs.String("out", "", "trace NDJSON output")
	verbose := fs.Bool("v", false, "print human-readable trace")
	fs.Parse(args)
	lib, err := scen.LoadChartLib(*charts)
	if err != nil {
		die("charts: %v", err)
	}
	f, err := os.Open(*in)
	if err != nil {
		die("open: %v", err)
	}
	defer f.Close()
	var w *bufio.Writer
	if *out != "" {
		of, err := os.Create(*out)
		if err != nil {
			die("create: %v", err)
		}
		defer of.Close()
		w = bufio.NewWriterSize(of, 1<<20)
		defer w.Flush()
	}
	sc := bufio.NewScanner(f)
	sc.Buffer(make([]byte, 1<<20), 1<<26)
	n := 0
	for sc.Scan() {
		line := sc.Bytes()
		if len(line) == 0 {
			continue
		}
		var s scen.Scenario
		if err := json.Unmarshal(line, &s); err != nil {
			die("scenario %d: %v", n, err)
		}
		evs := scen.Run(lib, s)
		for _, ev := range evs {
			if *verbose {
				fmt.Println(ev.Describe())
			}
			if w != nil {
				b, _ := json.Marshal(ev)
				w.Write(b)
				w.WriteByte('\n')
			}
		}
		n++
	}
	fmt.Fprintf(os.Stderr, "ran %d scenarios\n", n)
}
