package main

import (
	"flag"
	"fmt"
	"math/rand"
	"os"
	"sync"

	"helm.sh/helm/v4/pkg/action"
	chart "helm.sh/helm/v4/pkg/chart/v2"
	rspb "helm.sh/helm/v4/pkg/release/v1"
	"helm.sh/helm/v4/pkg/storage"
	"helm.sh/helm/v4/pkg/storage/driver"

	"verif/harness/scen"
	"verif/harness/simcluster"
)

func init() { commands["stress"] = cmdStress }

// hv stress: several goroutines use ONE storage backend concurrently (second sentence of C09).
// Meant to be run from a binary built with -race: the race detector's report is the observation.
func cmdStress(args []string) {
	fs := flag.NewFlagSet("stress", flag.ExitOnError)
	seed := fs.Int64("seed", 1, "seed")
	g := fs.Int("g", 8, "goroutines")
	k := fs.Int("k", 300, "operations per goroutine")
	fs.Parse(args)
	// "init-*": the storage backend as action.Configuration.Init builds it (its Kubernetes client is created lazily on
	// first use, and here the first use of all goroutines is simultaneous)
	for _, drv := range []string{"memory", "secret", "configmap", "init-secret", "init-configmap"} {
		var d driver.Driver
		sim := simcluster.New()
		f := &simcluster.Factory{RT: sim.Transport(1), Namespace: scen.RelNS}
		cs, _ := f.KubernetesClientSet()
		var st *storage.Storage
		switch drv {
		case "init-secret", "init-configmap":
			cfg := new(action.Configuration)
			if err := cfg.Init(&simcluster.Getter{F: f}, scen.RelNS, drv[len("init-"):]); err != nil {
				fmt.Printf("STRESS-PANIC driver=%s Configuration.Init: %v\n", drv, err)
				continue
			}
			st = cfg.Releases
		}
		switch drv {
		case "init-secret", "init-configmap":
		case "memory":
			m := driver.NewMemory()
			m.SetNamespace(scen.RelNS)
			d = m
		case "secret":
			d = driver.NewSecrets(cs.CoreV1().Secrets(scen.RelNS))
		default:
			d = driver.NewConfigMaps(cs.CoreV1().ConfigMaps(scen.RelNS))
		}
		if st == nil {
			st = storage.Init(d)
		}
		start := make(chan struct{})
		var wg sync.WaitGroup
		panics := make(chan string, *g)
		for w := 0; w < *g; w++ {
			wg.Add(1)
			go func(w int) {
				defer wg.Done()
				defer func() {
					if r := recover(); r != nil {
						panics <- fmt.Sprint(r)
					}
				}()
				rnd := rand.New(rand.NewSource(*seed*1000 + int64(w)))
				<-start
				for i := 0; i < *k; i++ {
					name := []string{"ra", "rb"}[rnd.Intn(2)]
					ver := 1 + rnd.Intn(4)
					rel := &rspb.Release{Name: name, Namespace: scen.RelNS, Version: ver,
						Info:  &rspb.Info{Status: []rspb.Status{rspb.StatusDeployed, rspb.StatusSuperseded, rspb.StatusFailed}[rnd.Intn(3)]},
						Chart: &chart.Chart{Metadata: &chart.Metadata{Name: "c", Version: "1.0.0"}}, Manifest: "m"}
					switch rnd.Intn(8) {
					case 0:
						_ = st.Create(rel)
					case 1:
						_ = st.Update(rel)
					case 2:
						_, _ = st.Delete(name, ver)
					case 3:
						_, _ = st.Get(name, ver)
					case 4:
						_, _ = st.History(name)
					case 5:
						_, _ = st.Deployed(name)
					case 6:
						_, _ = st.ListReleases()
					default:
						_, _ = st.Last(name)
					}
				}
			}(w)
		}
		close(start)
		wg.Wait()
		close(panics)
		for p := range panics {
			fmt.Printf("STRESS-PANIC driver=%s %s\n", drv, p)
		}
		fmt.Fprintf(os.Stderr, "stress %s: %d goroutines x %d ops done\n", drv, *g, *k)
	}
}
