// hv_ready replays the cases of spec/Ready.tla on helm's real ReadyChecker (harness/fam/ready).
package main

import (
	"fmt"
	"os"

	"verif/harness/fam/ready"
)

func main() {
	if len(os.Args) != 3 {
		fmt.Fprintln(os.Stderr, "usage: hv_ready <cases.ndjson> <obs.ndjson>")
		os.Exit(2)
	}
	n, err := ready.Run(os.Args[1], os.Args[2])
	if err != nil {
		fmt.Fprintln(os.Stderr, "hv_ready:", err)
		os.Exit(2)
	}
	fmt.Printf("hv_ready: %d cases\n", n)
}
