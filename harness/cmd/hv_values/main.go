// hv_values replays the cases TLC enumerated from spec/Values*.tla on the real helm code:
//
//	hv_values c04 -in cases.ndjson -out obs.ndjson     value precedence (C04)
//	hv_values c13 -in chains.ndjson -out obs.ndjson    upgrade / rollback chains (C13)
package main

import (
	"flag"
	"fmt"
	"io"
	"log"
	"log/slog"
	"os"

	"verif/harness/fam/values"
)

func die(f string, a ...any) {
	fmt.Fprintf(os.Stderr, f+"\n", a...)
	os.Exit(2)
}

func main() {
	if len(os.Args) < 2 {
		die("usage: hv_values c04|c13 -in <cases.ndjson> -out <obs.ndjson>")
	}
	fs := flag.NewFlagSet(os.Args[1], flag.ExitOnError)
	in := fs.String("in", "", "cases (NDJSON)")
	out := fs.String("out", "", "observations (NDJSON)")
	fs.Parse(os.Args[2:])
	// helm reports skipped values through the standard loggers; they are not observations
	log.SetOutput(io.Discard)
	slog.SetDefault(slog.New(slog.NewTextHandler(io.Discard, nil)))
	var n int
	var err error
	switch os.Args[1] {
	case "c04":
		n, err = values.RunCases(*in, *out)
	case "c13":
		n, err = values.RunChains(*in, *out)
	default:
		die("unknown command %s", os.Args[1])
	}
	if err != nil {
		die("%s: after %d cases: %v", os.Args[1], n, err)
	}
	fmt.Printf("%d cases\n", n)
}
