// hv_archive replays the abstract cases of Archive.tla (C15, C16) on the real helm code.
//
//	hv_archive c16 -cases c16_cases.ndjson -out obs.ndjson -seed N -reps R [-sample K] [-ids 1,2]
//	hv_archive c15 -cases c15_cases.ndjson -out obs.ndjson -seed N -reps R [-sample K]
package main

import (
	"bufio"
	"encoding/json"
	"flag"
	"fmt"
	"io"
	"log"
	"log/slog"
	"math/rand"
	"os"
	"sort"
	"strconv"
	"strings"
	"sync"

	"helm.sh/helm/v4/pkg/chart/v2/loader"

	"verif/harness/fam/archive"
)

func die(f string, a ...any) {
	fmt.Fprintf(os.Stderr, f+"\n", a...)
	os.Exit(2)
}

type job struct {
	line []byte
	rep  int
	idx  int
	flim int64
	tlim int64
}

func readLines(path string) [][]byte {
	f, err := os.Open(path)
	if err != nil {
		die("open %s: %v", path, err)
	}
	defer f.Close()
	var out [][]byte
	rd := bufio.NewReaderSize(f, 1<<20)
	for {
		l, err := rd.ReadBytes('\n')
		if len(strings.TrimSpace(string(l))) > 0 {
			out = append(out, l)
		}
		if err != nil {
			break
		}
	}
	return out
}

func main() {
	if len(os.Args) < 2 {
		die("usage: hv_archive c15|c16 ...")
	}
	mode := os.Args[1]
	fs := flag.NewFlagSet(mode, flag.ExitOnError)
	cases := fs.String("cases", "", "abstract cases (NDJSON exported by TLC)")
	out := fs.String("out", "", "observations (NDJSON)")
	seed := fs.Int64("seed", 1, "concretisation seed")
	reps := fs.Int("reps", 1, "concretisations per abstract case")
	onlyRep := fs.Int("rep", -1, "run only this concretisation index (replay)")
	sample := fs.Int("sample", 0, "run only a seeded sample of this many cases per family (0 = all)")
	keep := fs.String("keepfam", "", "families never sampled (comma separated)")
	ids := fs.String("ids", "", "only these case ids")
	pairs := fs.String("pairs", "", "only these id:rep combinations (replay / confirmation)")
	workers := fs.Int("workers", 8, "parallel workers")
	fs.Parse(os.Args[2:])
	if *cases == "" || *out == "" {
		die("-cases and -out are required")
	}
	log.SetOutput(io.Discard)
	slog.SetDefault(slog.New(slog.NewTextHandler(io.Discard, nil)))

	lines := readLines(*cases)
	want := map[int]bool{}
	for _, x := range strings.Split(*ids, ",") {
		if x != "" {
			n, _ := strconv.Atoi(x)
			want[n] = true
		}
	}
	type head struct {
		ID   int    `json:"id"`
		Fam  string `json:"fam"`
		FLim int64  `json:"flim"`
		TLim int64  `json:"tlim"`
	}
	byFam := map[string][]int{}
	heads := make([]head, len(lines))
	for i, l := range lines {
		if err := json.Unmarshal(l, &heads[i]); err != nil {
			die("case line %d: %v", i+1, err)
		}
		if len(want) > 0 && !want[heads[i].ID] {
			continue
		}
		byFam[heads[i].Fam] = append(byFam[heads[i].Fam], i)
	}
	keepFam := map[string]bool{}
	for _, x := range strings.Split(*keep, ",") {
		keepFam[x] = true
	}
	var chosen []int
	fams := make([]string, 0, len(byFam))
	for f := range byFam {
		fams = append(fams, f)
	}
	sort.Strings(fams)
	rng := rand.New(rand.NewSource(*seed))
	for _, f := range fams {
		idx := byFam[f]
		if *sample > 0 && len(idx) > *sample && !keepFam[f] {
			rng.Shuffle(len(idx), func(a, b int) { idx[a], idx[b] = idx[b], idx[a] })
			idx = idx[:*sample]
			sort.Ints(idx)
		}
		chosen = append(chosen, idx...)
	}
	sort.Ints(chosen)
	base, err := os.MkdirTemp("", "hvarch")
	if err != nil {
		die("%v", err)
	}
	defer os.RemoveAll(base)

	wantPair := map[string]bool{}
	for _, x := range strings.Split(*pairs, ",") {
		if x != "" {
			wantPair[x] = true
		}
	}
	var jobs []job
	for _, i := range chosen {
		for r := 0; r < *reps; r++ {
			if *onlyRep >= 0 && r != *onlyRep {
				continue
			}
			if len(wantPair) > 0 && !wantPair[fmt.Sprintf("%d:%d", heads[i].ID, r)] {
				continue
			}
			jobs = append(jobs, job{line: lines[i], rep: r, idx: len(jobs), flim: heads[i].FLim, tlim: heads[i].TLim})
		}
	}
	results := make([][]byte, len(jobs))
	var failMu sync.Mutex
	var fail error
	runJobs := func(js []job) {
		ch := make(chan job)
		var wg sync.WaitGroup
		for w := 0; w < *workers; w++ {
			wg.Add(1)
			wbase := fmt.Sprintf("%s/w%d", base, w)
			os.MkdirAll(wbase, 0755)
			go func(base string) {
				defer wg.Done()
				for j := range ch {
					func() {
						defer func() {
							if x := recover(); x != nil {
								failMu.Lock()
								fail = fmt.Errorf("harness error in case %s: %v", strings.TrimSpace(string(j.line[:min(len(j.line), 200)])), x)
								failMu.Unlock()
							}
						}()
						var b []byte
						switch mode {
						case "c16":
							var c archive.Case16
							if err := json.Unmarshal(j.line, &c); err != nil {
								panic(err)
							}
							b, _ = json.Marshal(archive.RunCase16(c, *seed, j.rep, base))
						case "c15":
							var c archive.Case15
							if err := json.Unmarshal(j.line, &c); err != nil {
								panic(err)
							}
							b, _ = json.Marshal(archive.RunCase15(c, *seed, j.rep, base))
						default:
							panic("unknown mode " + mode)
						}
						results[j.idx] = b
					}()
				}
			}(wbase)
		}
		for _, j := range js {
			ch <- j
		}
		close(ch)
		wg.Wait()
	}
	if mode == "c16" {
		// the limits are package variables of the loader: lowered to the values of the specification; cases
		// with different limits run one group after the other (never concurrently)
		type lim struct{ f, t int64 }
		var order []lim
		groups := map[lim][]job{}
		for _, j := range jobs {
			k := lim{j.flim, j.tlim}
			if _, ok := groups[k]; !ok {
				order = append(order, k)
			}
			groups[k] = append(groups[k], j)
		}
		for _, k := range order {
			loader.MaxDecompressedFileSize = k.f
			loader.MaxDecompressedChartSize = k.t
			runJobs(groups[k])
		}
	} else {
		runJobs(jobs)
	}
	if fail != nil {
		die("%v", fail)
	}
	f, err := os.Create(*out)
	if err != nil {
		die("%v", err)
	}
	w := bufio.NewWriterSize(f, 1<<20)
	for _, b := range results {
		w.Write(b)
		w.WriteByte('\n')
	}
	w.Flush()
	f.Close()
	fmt.Printf("cases=%d runs=%d\n", len(chosen), len(jobs))
}
