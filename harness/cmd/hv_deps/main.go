// hv_deps replays the cases TLC enumerated from spec/Deps.tla (C11) and spec/Schema.tla (C14)
// on the real helm code and writes one observation per case (NDJSON) for DepsObs.tla / SchemaObs.tla.
//
//	hv_deps c11 -in cases.ndjson -out obs.ndjson [-j N]
//	hv_deps c14 -in cases.ndjson -out obs.ndjson [-j N]
//	hv_deps show -in case.json            (print the generated chart tree of one case)
package main

import (
	"bufio"
	"encoding/json"
	"flag"
	"fmt"
	"io"
	"log"
	"log/slog"
	"os"
	"sync"

	"k8s.io/klog/v2"

	"verif/harness/fam/deps"
)

func die(f string, a ...any) {
	fmt.Fprintf(os.Stderr, f+"\n", a...)
	os.Exit(2)
}

func readCases(path string) []deps.CaseFile {
	f, err := os.Open(path)
	if err != nil {
		die("open %s: %v", path, err)
	}
	defer f.Close()
	var out []deps.CaseFile
	r := bufio.NewReaderSize(f, 1<<20)
	d := json.NewDecoder(r)
	for {
		var cf deps.CaseFile
		if err := d.Decode(&cf); err == io.EOF {
			break
		} else if err != nil {
			die("decode %s: %v", path, err)
		}
		out = append(out, cf)
	}
	return out
}

func runAll(cases []deps.CaseFile, out string, j int, fn func(cf deps.CaseFile, tmp string) any) {
	res := make([][]byte, len(cases))
	var wg sync.WaitGroup
	next := make(chan int)
	for w := 0; w < j; w++ {
		wg.Add(1)
		go func() {
			defer wg.Done()
			tmp, err := os.MkdirTemp("", "hvdeps")
			if err != nil {
				die("tmp: %v", err)
			}
			defer os.RemoveAll(tmp)
			for i := range next {
				b, err := json.Marshal(fn(cases[i], tmp))
				if err != nil {
					die("marshal: %v", err)
				}
				res[i] = b
			}
		}()
	}
	for i := range cases {
		next <- i
	}
	close(next)
	wg.Wait()
	f, err := os.Create(out)
	if err != nil {
		die("create %s: %v", out, err)
	}
	w := bufio.NewWriter(f)
	for _, b := range res {
		w.Write(b)
		w.WriteByte('\n')
	}
	w.Flush()
	f.Close()
}

func main() {
	// helm warns through slog / log on many of the enumerated inputs
	slog.SetDefault(slog.New(slog.NewTextHandler(io.Discard, nil)))
	log.SetOutput(io.Discard)
	klog.SetOutput(io.Discard)
	klog.LogToStderr(false)
	if len(os.Args) < 2 {
		die("usage: hv_deps c11|c14|show ...")
	}
	fs := flag.NewFlagSet(os.Args[1], flag.ExitOnError)
	in := fs.String("in", "", "cases (NDJSON, one exported case per line)")
	out := fs.String("out", "", "observations (NDJSON)")
	j := fs.Int("j", 8, "parallel workers")
	fs.Parse(os.Args[2:])
	switch os.Args[1] {
	case "c11":
		runAll(readCases(*in), *out, *j, func(cf deps.CaseFile, tmp string) any { return deps.Run11(cf, tmp) })
	case "c14":
		runAll(readCases(*in), *out, *j, func(cf deps.CaseFile, tmp string) any { return deps.Run14(cf, tmp) })
	case "show":
		for _, cf := range readCases(*in) {
			var c deps.Case
			if err := json.Unmarshal(cf.Case, &c); err != nil {
				die("bad case: %v", err)
			}
			for _, f := range c.Files(deps.BuildOpts{Lookup: true}) {
				fmt.Printf("---- %s\n%s", f.Name, f.Data)
			}
		}
	default:
		die("unknown command %s", os.Args[1])
	}
}
