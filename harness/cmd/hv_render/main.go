// hv_render is the harness command of the render family (properties C05 and C08).
//
//	hv_render meta    -out meta.json
//	hv_render render  -in cases.ndjson -out obs.ndjson -seed S -n N -m M [-disk] [-engine] [-crds] [-children K] [-uninst K]
//	hv_render child   -in refined.ndjson -out digests.ndjson -canary DIR        (run by `render` in child processes)
//	hv_render batch   -in batch_cases.ndjson -out batch_obs.ndjson [-grace 3ms]
package main

import (
	"bufio"
	"encoding/json"
	"flag"
	"fmt"
	"io"
	"log"
	"log/slog"
	"math/rand"
	"net"
	"net/http"
	"os"
	"os/exec"
	"path/filepath"
	"runtime"
	"runtime/debug"
	"runtime/pprof"
	"sort"
	"strings"
	"sync"
	"time"

	releaseutil "helm.sh/helm/v4/pkg/release/util"

	"verif/harness/fam/render"
)

func die(f string, a ...any) {
	fmt.Fprintf(os.Stderr, "hv_render: "+f+"\n", a...)
	os.Exit(2)
}

func main() {
	if len(os.Args) < 2 {
		die("usage: hv_render meta|render|child|batch ...")
	}
	// helm logs through slog / log; keep the harness output clean
	slog.SetDefault(slog.New(slog.NewTextHandler(io.Discard, nil)))
	log.SetOutput(io.Discard)
	// tiny live heap, heavy allocation: with the default GC target the collector runs continuously
	// and its stop-the-world phases serialise the workers
	debug.SetGCPercent(2000)
	debug.SetMemoryLimit(8 << 30)
	if pf := os.Getenv("VERIF_CPUPROFILE"); pf != "" {
		f, _ := os.Create(pf)
		pprof.StartCPUProfile(f)
		defer pprof.StopCPUProfile()
	}
	switch os.Args[1] {
	case "meta":
		cmdMeta(os.Args[2:])
	case "render":
		cmdRender(os.Args[2:])
	case "child":
		cmdChild(os.Args[2:])
	case "batch":
		cmdBatch(os.Args[2:])
	case "sortprobe":
		cmdSortProbe(os.Args[2:])
	default:
		die("unknown command %s", os.Args[1])
	}
}

func readLines[T any](path string) []T {
	f, err := os.Open(path)
	if err != nil {
		die("%v", err)
	}
	defer f.Close()
	var out []T
	sc := bufio.NewScanner(f)
	sc.Buffer(make([]byte, 1<<20), 1<<26)
	for sc.Scan() {
		if len(strings.TrimSpace(sc.Text())) == 0 {
			continue
		}
		var v T
		if err := json.Unmarshal(sc.Bytes(), &v); err != nil {
			die("bad line in %s: %v", path, err)
		}
		out = append(out, v)
	}
	return out
}

func writeLines[T any](path string, items []T) {
	f, err := os.Create(path)
	if err != nil {
		die("%v", err)
	}
	w := bufio.NewWriterSize(f, 1<<20)
	enc := json.NewEncoder(w)
	enc.SetEscapeHTML(false)
	for _, it := range items {
		if err := enc.Encode(it); err != nil {
			die("%v", err)
		}
	}
	w.Flush()
	f.Close()
}

// ---- meta: the tables of the code, for the monitor to compare with the specification's ----------

func cmdMeta(args []string) {
	fs := flag.NewFlagSet("meta", flag.ExitOnError)
	out := fs.String("out", "meta.json", "")
	fs.Parse(args)
	sorted := append([]string{}, render.PathName...)
	rand.Shuffle(len(sorted), func(i, j int) { sorted[i], sorted[j] = sorted[j], sorted[i] })
	sort.Strings(sorted)
	m := map[string]any{"paths": sorted, "installOrder": []string(releaseutil.InstallOrder), "uninstallOrder": []string(releaseutil.UninstallOrder)}
	b, _ := json.Marshal(m)
	if err := os.WriteFile(*out, append(b, '\n'), 0o644); err != nil {
		die("%v", err)
	}
}

// ---- render ----------------------------------------------------------------------------------------

type hostDirs struct {
	root string
	host render.Host
	cwds []string
	srv  *schemaServer
}

// schemaServer is a loopback HTTP listener a values schema could be tempted to fetch a "$ref" from: it counts
// the requests it gets and answers with whatever the canary file outside the chart currently says.
type schemaServer struct {
	mu   sync.Mutex
	hits int
	kind string
}

func (s *schemaServer) ServeHTTP(w http.ResponseWriter, _ *http.Request) {
	s.mu.Lock()
	s.hits++
	kind := s.kind
	s.mu.Unlock()
	switch kind {
	case "str":
		w.Write([]byte(`{"$defs":{"x":{"type":"string"}}}`))
	case "int":
		w.Write([]byte(`{"$defs":{"x":{"type":"integer"}}}`))
	default:
		http.NotFound(w, nil)
	}
}

func (s *schemaServer) Hits() int {
	s.mu.Lock()
	defer s.mu.Unlock()
	return s.hits
}

func setupHost(root string) hostDirs {
	h := hostDirs{root: root, host: render.Host{CanaryDir: filepath.Join(root, "outside")}, srv: &schemaServer{kind: "absent"}}
	if ln, err := net.Listen("tcp", "127.0.0.1:0"); err == nil {
		h.host.HTTPBase = "http://" + ln.Addr().String()
		go http.Serve(ln, h.srv)
	}
	must(os.MkdirAll(h.host.CanaryDir, 0o755))
	for _, w := range []string{"w0", "w1", "w2"} {
		d := filepath.Join(root, w, "a", "b")
		must(os.MkdirAll(d, 0o755))
		h.cwds = append(h.cwds, d)
	}
	return h
}

// setCanary rewrites every file outside the charts that a template could try to reach.
func (h hostDirs) setCanary(content string) {
	must(os.WriteFile(h.host.CanaryTxt(), []byte(content), 0o644))
	for _, w := range []string{"w0", "w1", "w2"} {
		for _, rel := range []string{"a/b/canary.txt", "a/canary.txt", "canary.txt"} {
			must(os.WriteFile(filepath.Join(h.root, w, rel), []byte(content+"-"+w), 0o644))
		}
	}
}

func (h hostDirs) setDefs(kind string) {
	h.srv.mu.Lock()
	h.srv.kind = kind
	h.srv.mu.Unlock()
	switch kind {
	case "absent":
		os.Remove(h.host.CanaryDefs())
	case "str":
		must(os.WriteFile(h.host.CanaryDefs(), []byte(`{"$defs":{"x":{"type":"string"}}}`), 0o644))
	case "int":
		must(os.WriteFile(h.host.CanaryDefs(), []byte(`{"$defs":{"x":{"type":"integer"}}}`), 0o644))
	}
}

func must(err error) {
	if err != nil {
		die("%v", err)
	}
}

func parallel(n int, workers int, fn func(i int)) {
	var wg sync.WaitGroup
	ch := make(chan int, 256)
	for w := 0; w < workers; w++ {
		wg.Add(1)
		go func() {
			defer wg.Done()
			for i := range ch {
				fn(i)
			}
		}()
	}
	for i := 0; i < n; i++ {
		ch <- i
	}
	close(ch)
	wg.Wait()
}

func schemaOutcome(o render.One) string {
	switch o.Err {
	case "none":
		return "accept"
	case "schema":
		if strings.Contains(o.ErrText, "validation failed") || strings.Contains(o.ErrText, "got string") || strings.Contains(o.ErrText, "want ") {
			return "reject"
		}
		return "error"
	}
	return "other:" + o.Err
}

func cmdRender(args []string) {
	fs := flag.NewFlagSet("render", flag.ExitOnError)
	in := fs.String("in", "", "cases (ndjson)")
	out := fs.String("out", "obs.ndjson", "")
	seed := fs.Int64("seed", 1, "")
	n := fs.Int("n", 3, "sequential renders per case")
	m := fs.Int("m", 0, "concurrent renders per case")
	disk := fs.Bool("disk", false, "also load every chart from a directory and from an archive")
	eng := fs.Bool("engine", false, "also observe engine.Render")
	crds := fs.Bool("crds", false, "also render with IncludeCRDs")
	children := fs.Int("children", 0, "child processes with another environment / working directory / canary content (0-2)")
	uninst := fs.Int("uninst", 0, "for every k-th part case also install + uninstall on the simulated cluster (0 = never)")
	workers := fs.Int("workers", runtime.NumCPU(), "")
	block := fs.Int("block", 4000, "cases per block (memory)")
	reuse := fs.Int("reuse", 0, "renders that reuse one loaded chart object (sequential; concurrent = -m)")
	caps := fs.Int("caps", 0, "rounds of overlapping renders with one --api-versions entry each (charts that consult .Capabilities; 0 = off)")
	cli := fs.Bool("cli", false, "also drive the helm command line (needs -disk) on the charts that call getHostByName")
	nohooks := fs.Bool("nohooks", false, "also dry-run with DisableHooks (client-only and --dry-run=server)")
	route := fs.Bool("route", false, "also render through a Configuration with a cluster connection (--dry-run=server)")
	fs.Parse(args)
	inAbs, _ := filepath.Abs(*in)
	outAbs, _ := filepath.Abs(*out)
	lines := readLines[render.CaseLine](inAbs)

	root, err := os.MkdirTemp("", "hv_render_")
	must(err)
	defer os.RemoveAll(root)
	hd := setupHost(root)
	hd.setCanary("CANARY-A")
	hd.setDefs("absent")
	os.Setenv("VERIF_CANARY", "ENV-A")
	must(os.Chdir(hd.cwds[0]))

	modes := []string{"files"}
	if *disk {
		modes = []string{"files", "dir", "tgz"}
	}
	pl := render.Plan{N: *n, M: *m, Modes: modes, Engine: *eng, InclCRDs: *crds}
	f, err := os.Create(outAbs)
	must(err)
	w := bufio.NewWriterSize(f, 1<<20)
	enc := json.NewEncoder(w)
	enc.SetEscapeHTML(false)
	// blocks: everything of a case is dropped once its observation is written
	for start := 0; start < len(lines); start += *block {
		end := start + *block
		if end > len(lines) {
			end = len(lines)
		}
		for _, ol := range renderBlock(lines[start:end], start, hd, root, pl, *seed, *workers, *children, *uninst, *disk, *eng, *reuse, *route, *caps, *nohooks, *cli) {
			must(enc.Encode(ol))
		}
	}
	w.Flush()
	f.Close()
}

func renderBlock(lines []render.CaseLine, offset int, hd hostDirs, root string, pl render.Plan, seed int64, workers, children, uninst int, disk, eng bool, reuse int, route bool, caps int, nohooks, cli bool) []render.ObsLine {
	hd.setCanary("CANARY-A")
	hd.setDefs("absent")
	refined := make([]render.CaseLine, len(lines))
	accs := make([]*render.Acc, len(lines))
	mats := make([]*render.Materialised, len(lines))
	crdsFirst := make([][]string, len(lines))
	for i, l := range lines {
		l.Case = render.NormCase(l.Case)
		refined[i] = render.Refine(l, seed)
		accs[i] = render.NewAcc(refined[i])
	}
	var failMu sync.Mutex
	var failures []string

	// phase 1: this process, canary A
	parallel(len(refined), workers, func(i int) {
		cl := refined[i]
		tmp := filepath.Join(root, "c", cl.ID)
		if disk {
			must(os.MkdirAll(tmp, 0o755))
			defer os.RemoveAll(tmp)
		}
		mat, err := render.Materialise(cl.Case, *cl.Fmt, hd.host, tmp, disk)
		if err != nil {
			failMu.Lock()
			failures = append(failures, cl.ID+": "+err.Error())
			failMu.Unlock()
			return
		}
		mats[i] = mat
		if cl.Case.Fam == "schema" {
			return // needs the canary to change: done sequentially below
		}
		crdsFirst[i] = render.ObserveInProcess(accs[i], mat, pl, seed)
		render.ObserveReuse(accs[i], mat, reuse, pl.M, seed)
		if route {
			render.ObserveRoute(accs[i], mat, seed)
		}
		if cli {
			render.ObserveCLI(accs[i], mat)
		}
		if nohooks {
			render.ObserveNoHooks(accs[i], mat, seed)
		}
		if caps > 0 {
			render.ObserveCaps(accs[i], mat, caps, 8, seed)
		}
		if uninst > 0 && cl.Case.Fam == "part" && (offset+i)%uninst == 0 {
			kinds, err := render.ObserveUninstall(mat)
			if err != nil { // an observation, not a harness failure: the real install / uninstall refused the rendered manifest
				msg := err.Error()
				if len(msg) > 300 {
					msg = msg[:300]
				}
				accs[i].UninstErr = msg
			} else {
				accs[i].Uninst = kinds
			}
		}
	})
	if len(failures) > 0 {
		die("%d cases could not be built, first: %s", len(failures), failures[0])
	}

	// schema family: the same chart and values while the file outside the chart changes
	r := rand.New(rand.NewSource(seed))
	for i, cl := range refined {
		if cl.Case.Fam != "schema" {
			continue
		}
		hits0 := hd.srv.Hits()
		for _, st := range []string{"absent", "str", "int", "absent", "int", "str"} {
			hd.setDefs(st)
			for k := 0; k < 2; k++ {
				o := mats[i].RenderOnce("files", false, false, r)
				accs[i].Add(o, false)
				if len(accs[i].Schema) < 3 && k == 0 {
					accs[i].Schema = append(accs[i].Schema, schemaOutcome(o))
				}
			}
		}
		accs[i].HTTPHits = hd.srv.Hits() - hits0
	}
	// (accs[i].HTTPHits is set per case below)
	hd.setDefs("absent")

	// phases 2..: child processes with another environment, working directory and canary content
	if children > 0 {
		rf := filepath.Join(root, "refined.ndjson")
		var rl []render.CaseLine
		for _, cl := range refined {
			if cl.Case.Fam != "schema" {
				rl = append(rl, cl)
			}
		}
		writeLines(rf, rl)
		exe, err := os.Executable()
		must(err)
		idx := map[string]int{}
		for i, cl := range refined {
			idx[cl.ID] = i
		}
		for c := 1; c <= children; c++ {
			hd.setCanary(fmt.Sprintf("CANARY-%c", 'A'+c))
			df := filepath.Join(root, fmt.Sprintf("digests%d.ndjson", c))
			cmd := exec.Command(exe, "child", "-in", rf, "-out", df, "-canary", hd.host.CanaryDir, "-seed", fmt.Sprint(seed+int64(c)))
			cmd.Dir = hd.cwds[c%len(hd.cwds)]
			cmd.Env = []string{"PATH=/nonexistent", "HOME=/nonexistent" + fmt.Sprint(c), "VERIF_CANARY=ENV-" + string(rune('A'+c)),
				"TMPDIR=" + root, fmt.Sprintf("HELM_NAMESPACE=other%d", c), "HELM_DEBUG=true", "LANG=xx_XX", "TZ=Pacific/Kiritimati"}
			cmd.Stderr = os.Stderr
			if err := cmd.Run(); err != nil {
				die("child %d failed: %v", c, err)
			}
			for _, d := range readLines[render.Digests](df) {
				accs[idx[d.ID]].AddDigests(d)
			}
			// and once more in this process under the changed canary
			parallel(len(refined), workers, func(i int) {
				if refined[i].Case.Fam == "schema" {
					return
				}
				rr := rand.New(rand.NewSource(seed + int64(i)))
				accs[i].Add(mats[i].RenderOnce("files", false, eng, rr), false)
			})
		}
	}

	res := make([]render.ObsLine, len(refined))
	for i := range refined {
		res[i] = accs[i].Result(crdsFirst[i])
	}
	return res
}

func cmdChild(args []string) {
	fs := flag.NewFlagSet("child", flag.ExitOnError)
	in := fs.String("in", "", "")
	out := fs.String("out", "", "")
	canary := fs.String("canary", "", "")
	seed := fs.Int64("seed", 1, "")
	fs.Parse(args)
	lines := readLines[render.CaseLine](*in)
	host := render.Host{CanaryDir: *canary}
	res := make([][]render.Digests, len(lines))
	parallel(len(lines), runtime.NumCPU(), func(i int) {
		cl := lines[i]
		mat, err := render.Materialise(cl.Case, *cl.Fmt, host, "", false)
		if err != nil {
			return
		}
		r := rand.New(rand.NewSource(*seed + int64(i)))
		a := mat.RenderOnce("files", false, true, r)
		b := mat.RenderOnce("files", true, false, r)
		da, db := digestsOf(a, cl.ID, false), digestsOf(b, cl.ID, true)
		res[i] = []render.Digests{da, db}
	})
	var flat []render.Digests
	for _, r := range res {
		flat = append(flat, r...)
	}
	writeLines(*out, flat)
}

func digestsOf(o render.One, id string, incl bool) render.Digests { return o.DigestsFor(id, incl) }

// ---- batch -----------------------------------------------------------------------------------------

func cmdBatch(args []string) {
	fs := flag.NewFlagSet("batch", flag.ExitOnError)
	in := fs.String("in", "", "")
	out := fs.String("out", "batch_obs.ndjson", "")
	grace := fs.Duration("grace", 3*time.Millisecond, "how long the last response of a kind is held")
	workers := fs.Int("workers", runtime.NumCPU(), "")
	fs.Parse(args)
	cases := readLines[render.BatchCase](*in)
	res := make([]render.BatchObs, len(cases))
	parallel(len(cases), *workers, func(i int) { res[i] = render.RunBatch(cases[i], *grace) })
	writeLines(*out, res)
}

// ---- sortprobe: the real kind sort on arbitrary kinds ----------------------------------------------

type probeCase struct {
	Table string   `json:"table"` // install | uninstall
	Kinds []string `json:"kinds"`
	Alpha []string `json:"alpha"`
	Out   []string `json:"out"`
}

// cmdSortProbe runs the real releaseutil.SortManifests, with the install / uninstall table of the code, over one
// template file holding one document per given kind (in the given order) and reports the kinds in output order.
func cmdSortProbe(args []string) {
	fs := flag.NewFlagSet("sortprobe", flag.ExitOnError)
	in := fs.String("in", "", "")
	out := fs.String("out", "", "")
	fs.Parse(args)
	cases := readLines[probeCase](*in)
	for i := range cases {
		c := &cases[i]
		var docs []string
		for j, k := range c.Kinds {
			docs = append(docs, fmt.Sprintf("apiVersion: v1\nkind: %s\nmetadata:\n  name: k%d\n", k, j))
		}
		order := releaseutil.InstallOrder
		if c.Table == "uninstall" {
			order = releaseutil.UninstallOrder
		}
		_, man, err := releaseutil.SortManifests(map[string]string{"p/templates/a.yaml": strings.Join(docs, "---\n")}, nil, order)
		c.Out = []string{}
		if err == nil {
			for _, m := range man {
				c.Out = append(c.Out, m.Head.Kind)
			}
		}
		c.Alpha = append([]string{}, c.Kinds...)
		sort.Strings(c.Alpha)
		// distinct kinds only (alpha is a table of positions)
		uniq := c.Alpha[:0]
		for j, k := range c.Alpha {
			if j == 0 || k != c.Alpha[j-1] {
				uniq = append(uniq, k)
			}
		}
		c.Alpha = uniq
	}
	writeLines(*out, cases)
}
