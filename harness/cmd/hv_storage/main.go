// hv_storage replays call sequences exported by TLC from spec/Storage.tla on the three real
// storage drivers of helm and writes the trace (for spec/StorageTrace.tla) and observations.
//
//	hv_storage -in seqs.ndjson -out trace.ndjson -obs obs.ndjson -seed N [-tier quick|thorough] [-workers 4]
package main

import (
	"bufio"
	"encoding/json"
	"flag"
	"fmt"
	"os"
	"runtime/debug"
	"runtime/pprof"
	"sync"

	st "verif/harness/fam/storage"
)

func die(f string, a ...any) {
	fmt.Fprintf(os.Stderr, f+"\n", a...)
	os.Exit(2)
}

func main() {
	in := flag.String("in", "", "scenarios (NDJSON, one call sequence per line)")
	out := flag.String("out", "", "trace (NDJSON)")
	obsPath := flag.String("obs", "", "observations (NDJSON)")
	seed := flag.Int64("seed", 1, "seed of the concretisation")
	tier := flag.String("tier", "quick", "quick | thorough (size of large manifests)")
	workers := flag.Int("workers", 4, "parallel scenarios")
	debug.SetGCPercent(400) // the drivers' gzip writers produce a lot of short-lived garbage
	prof := flag.String("cpuprofile", "", "write a CPU profile (development)")
	flag.Parse()
	if *prof != "" {
		pf, err := os.Create(*prof)
		if err != nil {
			die("%v", err)
		}
		pprof.StartCPUProfile(pf)
		defer pprof.StopCPUProfile()
	}
	if *in == "" || *out == "" || *obsPath == "" {
		die("usage: hv_storage -in seqs.ndjson -out trace.ndjson -obs obs.ndjson -seed N")
	}
	f, err := os.Open(*in)
	if err != nil {
		die("%v", err)
	}
	var scs []st.Scenario
	rd := bufio.NewReaderSize(f, 1<<20)
	dec := json.NewDecoder(rd)
	for dec.More() {
		var sc st.Scenario
		if err := dec.Decode(&sc); err != nil {
			die("bad scenario: %v", err)
		}
		scs = append(scs, sc)
	}
	f.Close()

	results := make([]*st.Result, len(scs))
	errs := make([]error, len(scs))
	var wg sync.WaitGroup
	idx := make(chan int)
	for w := 0; w < *workers; w++ {
		wg.Add(1)
		go func() {
			defer wg.Done()
			for i := range idx {
				func() {
					defer func() {
						if r := recover(); r != nil { // a panic of the harness itself (helm's are caught per call)
							errs[i] = fmt.Errorf("harness panic in scenario %s: %v", scs[i].ID, r)
						}
					}()
					results[i], errs[i] = st.RunScenario(*seed, *tier, scs[i])
				}()
			}
		}()
	}
	for i := range scs {
		idx <- i
	}
	close(idx)
	wg.Wait()

	of, err := os.Create(*out)
	if err != nil {
		die("%v", err)
	}
	ow := bufio.NewWriterSize(of, 1<<20)
	bf, err := os.Create(*obsPath)
	if err != nil {
		die("%v", err)
	}
	bw := bufio.NewWriterSize(bf, 1<<20)
	oenc, benc := json.NewEncoder(ow), json.NewEncoder(bw)
	oenc.SetEscapeHTML(false)
	benc.SetEscapeHTML(false)
	nev := 0
	for i, sc := range scs {
		if errs[i] != nil {
			die("scenario %s: %v", sc.ID, errs[i])
		}
		drivers := sc.Drivers
		if len(drivers) == 0 {
			drivers = st.AllDrivers
		}
		for _, d := range drivers {
			for _, ev := range results[i].Traces[d] {
				if err := oenc.Encode(ev); err != nil {
					die("%v", err)
				}
				nev++
			}
		}
		for _, o := range results[i].Obs {
			if err := benc.Encode(o); err != nil {
				die("%v", err)
			}
		}
	}
	ow.Flush()
	of.Close()
	bw.Flush()
	bf.Close()
	fmt.Printf("scenarios=%d events=%d\n", len(scs), nev)
}
